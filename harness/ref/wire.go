package ref

import (
	"crypto/aes"
	"crypto/cipher"
	"crypto/hmac"
	"crypto/md5"
	"crypto/sha1"
	"crypto/sha256"
	"encoding/binary"
	"errors"
	"fmt"
	"hash"
)

// Algorithm numbers (IPMI v2.0 tables 13-17, 13-18, 13-19).
const (
	AuthNone   = 0
	AuthSHA1   = 1
	AuthMD5    = 2
	AuthSHA256 = 3

	IntegNone      = 0
	IntegSHA1_96   = 1
	IntegMD5_128   = 2
	IntegMD5Plain  = 3
	IntegSHA256128 = 4

	ConfNone    = 0
	ConfAES     = 1
	ConfXRC4128 = 2
	ConfXRC440  = 3
)

// Payload types (table 13-16).
const (
	PTIPMI      = 0x00
	PTSOL       = 0x01
	PTOEM       = 0x02
	PTOpenReq   = 0x10
	PTOpenRsp   = 0x11
	PTRAKP1     = 0x12
	PTRAKP2     = 0x13
	PTRAKP3     = 0x14
	PTRAKP4     = 0x15
	BMCAddr     = 0x20
	ConsoleSWID = 0x81
)

// Suite is an (authentication, integrity, confidentiality) triple.
type Suite struct{ Auth, Integ, Conf uint8 }

func (s Suite) String() string { return fmt.Sprintf("%d/%d/%d", s.Auth, s.Integ, s.Conf) }

// AuthHash returns the hash constructor underlying an authentication algorithm.
func AuthHash(auth uint8) func() hash.Hash {
	switch auth {
	case AuthSHA1:
		return sha1.New
	case AuthMD5:
		return md5.New
	case AuthSHA256:
		return sha256.New
	}
	return nil
}

// HMAC computes the full-length HMAC of the concatenation of parts under the
// authentication algorithm's hash.
func HMAC(auth uint8, key []byte, parts ...[]byte) []byte {
	hf := AuthHash(auth)
	if hf == nil {
		hf = sha1.New // unknown algorithm: any consistent choice (see C12)
	}
	h := hmac.New(hf, key)
	for _, p := range parts {
		h.Write(p)
	}
	return h.Sum(nil)
}

// ICVLen is the length of the RAKP4 integrity check value for an auth algorithm.
func ICVLen(auth uint8) int {
	switch auth {
	case AuthSHA1:
		return 12
	case AuthMD5:
		return 16
	case AuthSHA256:
		return 16
	}
	return 0
}

// AuthCodeLen is the full digest length used for RAKP2/RAKP3 auth codes.
func AuthCodeLen(auth uint8) int {
	switch auth {
	case AuthSHA1:
		return 20
	case AuthMD5:
		return 16
	case AuthSHA256:
		return 32
	}
	return 0
}

// IntegLen is the per-packet AuthCode length for an integrity algorithm.
func IntegLen(integ uint8) int {
	switch integ {
	case IntegSHA1_96:
		return 12
	case IntegMD5_128:
		return 16
	case IntegSHA256128:
		return 16
	}
	return 0
}

// IntegSum computes the per-packet AuthCode over data under K1.
func IntegSum(integ uint8, k1, data []byte) []byte {
	var h hash.Hash
	switch integ {
	case IntegSHA1_96:
		h = hmac.New(sha1.New, k1)
	case IntegMD5_128:
		h = hmac.New(md5.New, k1)
	case IntegSHA256128:
		h = hmac.New(sha256.New, k1)
	default:
		return nil
	}
	h.Write(data)
	return h.Sum(nil)[:IntegLen(integ)]
}

// PadKey zero-pads (or truncates) a password to the 20 bytes a BMC stores.
func PadKey(p []byte) []byte {
	k := make([]byte, 20)
	copy(k, p)
	return k
}

func le32(v uint32) []byte {
	b := make([]byte, 4)
	binary.LittleEndian.PutUint32(b, v)
	return b
}

// RAKP inputs. Role is the whole byte sent in RAKP1 (bit 4 = name-only lookup).
type RAKP struct {
	Auth       uint8
	SIDM, SIDC uint32 // console's session ID, BMC's session ID
	RM, RC     [16]byte
	GUID       [16]byte
	Role       byte
	User       []byte
}

func (r *RAKP) tail() []byte {
	return append([]byte{r.Role, byte(len(r.User))}, r.User...)
}

// RAKP2Code = HMAC_Kuid(SIDm, SIDc, Rm, Rc, GUIDc, Role, ULen, UName).
func (r *RAKP) RAKP2Code(kuid []byte) []byte {
	return HMAC(r.Auth, kuid, le32(r.SIDM), le32(r.SIDC), r.RM[:], r.RC[:], r.GUID[:], r.tail())
}

// RAKP3Code = HMAC_Kuid(Rc, SIDm, Role, ULen, UName).
func (r *RAKP) RAKP3Code(kuid []byte) []byte {
	return HMAC(r.Auth, kuid, r.RC[:], le32(r.SIDM), r.tail())
}

// SIK = HMAC_Kg(Rm, Rc, Role, ULen, UName).
func (r *RAKP) SIK(kg []byte) []byte {
	return HMAC(r.Auth, kg, r.RM[:], r.RC[:], r.tail())
}

// RAKP4ICV = HMAC_SIK(Rm, SIDc, GUIDc) truncated per algorithm.
func (r *RAKP) RAKP4ICV(sik []byte) []byte {
	n := ICVLen(r.Auth)
	if n == 0 {
		n = 12
	}
	return HMAC(r.Auth, sik, r.RM[:], le32(r.SIDC), r.GUID[:])[:n]
}

// Kn = HMAC_SIK(n repeated 20 times).
func Kn(auth uint8, sik []byte, n byte) []byte {
	c := make([]byte, 20)
	for i := range c {
		c[i] = n
	}
	return HMAC(auth, sik, c)
}

// ---------------------------------------------------------------------------
// IPMI message

// Checksum is the two's complement checksum of 13.8.
func Checksum(b []byte) byte {
	var s byte
	for _, x := range b {
		s += x
	}
	return byte(0x100 - int(s))
}

// Msg is an IPMI LAN message. For responses CC is the completion code and Data
// follows it; for requests Data follows the command byte. Group-extension and
// OEM prefix bytes are part of Data.
type Msg struct {
	RsAddr byte // first address byte on the wire
	NetFn  byte
	RsLUN  byte
	RqAddr byte // second address byte on the wire
	RqSeq  byte
	RqLUN  byte
	Cmd    byte
	CC     byte
	Data   []byte
}

func (m *Msg) IsResponse() bool { return m.NetFn&1 == 1 }

// Bytes encodes the message with both checksums.
func (m *Msg) Bytes() []byte {
	b := []byte{m.RsAddr, m.NetFn<<2 | m.RsLUN&3}
	b = append(b, Checksum(b))
	b = append(b, m.RqAddr, m.RqSeq<<2|m.RqLUN&3, m.Cmd)
	if m.IsResponse() {
		b = append(b, m.CC)
	}
	b = append(b, m.Data...)
	b = append(b, Checksum(b[3:]))
	return b
}

// ParseMsg strictly parses an IPMI message, verifying both checksums.
func ParseMsg(b []byte) (*Msg, error) {
	if len(b) < 7 {
		return nil, fmt.Errorf("message too short: %d", len(b))
	}
	if Checksum(b[:2]) != b[2] {
		return nil, fmt.Errorf("checksum1 invalid")
	}
	if Checksum(b[3:len(b)-1]) != b[len(b)-1] {
		return nil, fmt.Errorf("checksum2 invalid")
	}
	m := &Msg{RsAddr: b[0], NetFn: b[1] >> 2, RsLUN: b[1] & 3, RqAddr: b[3], RqSeq: b[4] >> 2, RqLUN: b[4] & 3, Cmd: b[5]}
	rest := b[6 : len(b)-1]
	if m.IsResponse() {
		if len(rest) < 1 {
			return nil, fmt.Errorf("response without completion code")
		}
		m.CC = rest[0]
		rest = rest[1:]
	}
	m.Data = append([]byte(nil), rest...)
	return m, nil
}

// ---------------------------------------------------------------------------
// RMCP + v2.0 session wrapper

var RMCPHeader = []byte{0x06, 0x00, 0xFF, 0x07}

// Packet is a parsed (or to-be-built) RMCP+ datagram.
type Packet struct {
	Encrypted     bool
	Authenticated bool
	PayloadType   uint8
	OEMIANA       uint32
	OEMPayloadID  uint16
	SessionID     uint32
	Seq           uint32
	Payload       []byte

	// trailer (authenticated only)
	PadBytes   []byte
	PadLen     byte
	NextHeader byte
	AuthCode   []byte
	AuthRange  []byte // bytes from auth type through next header
}

// BuildPacket encodes a packet. If integ != 0 and Authenticated, the trailer is
// added with the AuthCode computed under k1.
func BuildPacket(p *Packet, integ uint8, k1 []byte) []byte {
	b := append([]byte(nil), RMCPHeader...)
	start := len(b)
	flags := p.PayloadType & 0x3f
	if p.Encrypted {
		flags |= 0x80
	}
	if p.Authenticated {
		flags |= 0x40
	}
	b = append(b, 0x06, flags)
	if p.PayloadType&0x3f == PTOEM {
		b = append(b, le32(p.OEMIANA)...)
		b = append(b, byte(p.OEMPayloadID), byte(p.OEMPayloadID>>8))
	}
	b = append(b, le32(p.SessionID)...)
	b = append(b, le32(p.Seq)...)
	b = append(b, byte(len(p.Payload)), byte(len(p.Payload)>>8))
	b = append(b, p.Payload...)
	if p.Authenticated {
		n := len(b) - start + 2
		pad := (4 - n%4) % 4
		for i := 0; i < pad; i++ {
			b = append(b, 0xFF)
		}
		b = append(b, byte(pad), 0x07)
		b = append(b, IntegSum(integ, k1, b[start:])...)
	}
	return b
}

// ParsePacket strictly parses an RMCP+ datagram. authLen is the AuthCode length
// expected if the packet is authenticated.
func ParsePacket(d []byte, authLen int) (*Packet, error) {
	if len(d) < 4 || d[0] != 0x06 || d[1] != 0x00 || d[2] != 0xFF || d[3] != 0x07 {
		return nil, fmt.Errorf("bad RMCP header % x", d[:min(4, len(d))])
	}
	s := d[4:]
	if len(s) < 12 {
		return nil, fmt.Errorf("session header too short: %d", len(s))
	}
	if s[0] != 0x06 {
		return nil, fmt.Errorf("auth type %#x, want 0x06", s[0])
	}
	p := &Packet{Encrypted: s[1]&0x80 != 0, Authenticated: s[1]&0x40 != 0, PayloadType: s[1] & 0x3f}
	off := 2
	if p.PayloadType == PTOEM {
		if len(s) < 18 {
			return nil, fmt.Errorf("OEM session header too short")
		}
		p.OEMIANA = binary.LittleEndian.Uint32(s[2:6])
		p.OEMPayloadID = binary.LittleEndian.Uint16(s[6:8])
		off = 8
	}
	p.SessionID = binary.LittleEndian.Uint32(s[off:])
	p.Seq = binary.LittleEndian.Uint32(s[off+4:])
	l := int(binary.LittleEndian.Uint16(s[off+8:]))
	off += 10
	if len(s) < off+l {
		return nil, fmt.Errorf("length field %d exceeds data %d", l, len(s)-off)
	}
	p.Payload = append([]byte(nil), s[off:off+l]...)
	off += l
	if !p.Authenticated {
		if len(s) != off {
			return nil, fmt.Errorf("%d trailing bytes after unauthenticated payload", len(s)-off)
		}
		return p, nil
	}
	// trailer: pad, pad length, next header, authcode(authLen)
	tl := len(s) - off
	if tl < 2+authLen {
		return nil, fmt.Errorf("trailer too short: %d bytes for authcode %d", tl, authLen)
	}
	pad := tl - 2 - authLen
	if pad > 3 {
		return nil, fmt.Errorf("integrity pad of %d bytes", pad)
	}
	p.PadBytes = append([]byte(nil), s[off:off+pad]...)
	for _, x := range p.PadBytes {
		if x != 0xFF {
			return nil, fmt.Errorf("integrity pad byte %#x", x)
		}
	}
	p.PadLen = s[off+pad]
	p.NextHeader = s[off+pad+1]
	if int(p.PadLen) != pad {
		return nil, fmt.Errorf("pad length byte %d, %d pad bytes present", p.PadLen, pad)
	}
	if p.NextHeader != 0x07 {
		return nil, fmt.Errorf("next header %#x", p.NextHeader)
	}
	if (off+pad+2)%4 != 0 {
		return nil, fmt.Errorf("authenticated range %d bytes not a multiple of 4", off+pad+2)
	}
	p.AuthRange = append([]byte(nil), s[:off+pad+2]...)
	p.AuthCode = append([]byte(nil), s[off+pad+2:]...)
	return p, nil
}

// ---------------------------------------------------------------------------
// AES-128-CBC confidentiality (13.29)

// AESEncrypt wraps plain as IV || E(plain || 01 02 .. n || n).
func AESEncrypt(k2 []byte, iv [16]byte, plain []byte) []byte {
	n := 15 - len(plain)%16
	buf := append([]byte(nil), plain...)
	for i := 1; i <= n; i++ {
		buf = append(buf, byte(i))
	}
	buf = append(buf, byte(n))
	return AESEncryptRaw(k2, iv, buf)
}

// AESEncryptRaw encrypts an already padded plaintext (length must be a multiple
// of 16).
func AESEncryptRaw(k2 []byte, iv [16]byte, padded []byte) []byte {
	c, _ := aes.NewCipher(k2[:16])
	out := make([]byte, 16+len(padded))
	copy(out, iv[:])
	cipher.NewCBCEncrypter(c, iv[:]).CryptBlocks(out[16:], padded)
	return out
}

var ErrAES = errors.New("aes payload invalid")

// AESDecrypt returns (iv, message, padLen). Strict: pad must be 01..n, n<=15,
// and minimal is reported via padLen for the caller to judge.
func AESDecrypt(k2 []byte, payload []byte) (iv [16]byte, msg []byte, pad int, err error) {
	if len(payload) < 32 || len(payload)%16 != 0 {
		return iv, nil, 0, fmt.Errorf("%w: length %d", ErrAES, len(payload))
	}
	copy(iv[:], payload[:16])
	c, _ := aes.NewCipher(k2[:16])
	pt := make([]byte, len(payload)-16)
	cipher.NewCBCDecrypter(c, iv[:]).CryptBlocks(pt, payload[16:])
	pad = int(pt[len(pt)-1])
	if pad > 15 || pad+1 > len(pt) {
		return iv, nil, pad, fmt.Errorf("%w: pad length %d", ErrAES, pad)
	}
	ps := len(pt) - 1 - pad
	for i := 0; i < pad; i++ {
		if pt[ps+i] != byte(i+1) {
			return iv, nil, pad, fmt.Errorf("%w: pad byte %d is %#x", ErrAES, i, pt[ps+i])
		}
	}
	return iv, pt[:ps], pad, nil
}

// ---------------------------------------------------------------------------
// v1.5 wrapper

type V1 struct {
	AuthType byte
	Seq, ID  uint32
	Code     [16]byte
	Payload  []byte
}

func (v *V1) Bytes() []byte {
	b := []byte{v.AuthType}
	b = append(b, le32(v.Seq)...)
	b = append(b, le32(v.ID)...)
	if v.AuthType != 0 {
		b = append(b, v.Code[:]...)
	}
	b = append(b, byte(len(v.Payload)))
	return append(b, v.Payload...)
}

func min(a, b int) int {
	if a < b {
		return a
	}
	return b
}
