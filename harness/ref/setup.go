package ref

import (
	"encoding/binary"
	"fmt"
)

// RMCP+ session setup payloads (13.17 - 13.23).

// AlgPayload is one 8-byte algorithm payload of Open Session Request/Response.
type AlgPayload struct {
	Type   byte // 0 auth, 1 integrity, 2 confidentiality
	Length byte // 8, or 0 for wildcard in a request
	Alg    byte
}

func (a AlgPayload) Bytes() []byte { return []byte{a.Type, 0, 0, a.Length, a.Alg, 0, 0, 0} }

type OpenReq struct {
	Tag  byte
	Priv byte
	SIDM uint32
	Algs [3]AlgPayload
}

// ParseOpenReq strictly parses an Open Session Request (32 bytes).
func ParseOpenReq(b []byte) (*OpenReq, error) {
	if len(b) != 32 {
		return nil, fmt.Errorf("open session request is %d bytes, want 32", len(b))
	}
	if b[1]&0xf0 != 0 || b[2] != 0 || b[3] != 0 {
		return nil, fmt.Errorf("reserved bytes non-zero: % x", b[1:4])
	}
	r := &OpenReq{Tag: b[0], Priv: b[1] & 0x0f, SIDM: binary.LittleEndian.Uint32(b[4:8])}
	for i := 0; i < 3; i++ {
		p := b[8+8*i : 16+8*i]
		if p[0] != byte(i) {
			return nil, fmt.Errorf("payload %d has type %d", i, p[0])
		}
		if p[1] != 0 || p[2] != 0 || p[5] != 0 || p[6] != 0 || p[7] != 0 {
			return nil, fmt.Errorf("payload %d reserved bytes non-zero: % x", i, p)
		}
		if p[3] != 8 && p[3] != 0 {
			return nil, fmt.Errorf("payload %d length %d", i, p[3])
		}
		if p[4]&0xc0 != 0 {
			return nil, fmt.Errorf("payload %d algorithm reserved bits set: %#x", i, p[4])
		}
		r.Algs[i] = AlgPayload{Type: p[0], Length: p[3], Alg: p[4]}
	}
	return r, nil
}

type OpenRsp struct {
	Tag, Status, Priv byte
	SIDM, SIDC        uint32
	Algs              [3]byte
	// Lens, if LensSet, are the payload-length bytes of the three algorithm
	// payloads (8 in every conforming response; 0 is how a *request* spells a
	// wildcard)
	LensSet bool
	Lens    [3]byte
}

// Bytes encodes an Open Session Response: 36 bytes for status 0, otherwise the
// 8-byte error form (tag, status, reserved, reserved, console session ID).
func (r *OpenRsp) Bytes() []byte {
	b := []byte{r.Tag, r.Status, r.Priv, 0}
	b = append(b, le32(r.SIDM)...)
	if r.Status != 0 {
		b[2] = 0
		return b
	}
	b = append(b, le32(r.SIDC)...)
	for i := 0; i < 3; i++ {
		l := byte(8)
		if r.LensSet {
			l = r.Lens[i]
		}
		b = append(b, AlgPayload{Type: byte(i), Length: l, Alg: r.Algs[i]}.Bytes()...)
	}
	return b
}

type RAKP1 struct {
	Tag  byte
	SIDC uint32
	RM   [16]byte
	Role byte
	User []byte
}

func ParseRAKP1(b []byte) (*RAKP1, error) {
	if len(b) < 28 {
		return nil, fmt.Errorf("RAKP1 is %d bytes, want >= 28", len(b))
	}
	if b[1] != 0 || b[2] != 0 || b[3] != 0 || b[25] != 0 || b[26] != 0 {
		return nil, fmt.Errorf("RAKP1 reserved bytes non-zero")
	}
	if b[24]&0xe0 != 0 {
		return nil, fmt.Errorf("RAKP1 role reserved bits set: %#x", b[24])
	}
	r := &RAKP1{Tag: b[0], SIDC: binary.LittleEndian.Uint32(b[4:8]), Role: b[24]}
	copy(r.RM[:], b[8:24])
	ul := int(b[27])
	if ul > 16 {
		return nil, fmt.Errorf("RAKP1 username length %d", ul)
	}
	if len(b) != 28+ul {
		return nil, fmt.Errorf("RAKP1 is %d bytes, username length says %d", len(b), 28+ul)
	}
	r.User = append([]byte(nil), b[28:]...)
	return r, nil
}

type RAKP2 struct {
	Tag, Status byte
	SIDM        uint32
	RC, GUID    [16]byte
	Code        []byte
}

func (r *RAKP2) Bytes() []byte {
	b := []byte{r.Tag, r.Status, 0, 0}
	b = append(b, le32(r.SIDM)...)
	if r.Status != 0 {
		return b
	}
	b = append(b, r.RC[:]...)
	b = append(b, r.GUID[:]...)
	return append(b, r.Code...)
}

type RAKP3 struct {
	Tag, Status byte
	SIDC        uint32
	Code        []byte
}

func ParseRAKP3(b []byte) (*RAKP3, error) {
	if len(b) < 8 {
		return nil, fmt.Errorf("RAKP3 is %d bytes, want >= 8", len(b))
	}
	if b[2] != 0 || b[3] != 0 {
		return nil, fmt.Errorf("RAKP3 reserved bytes non-zero")
	}
	return &RAKP3{Tag: b[0], Status: b[1], SIDC: binary.LittleEndian.Uint32(b[4:8]), Code: append([]byte(nil), b[8:]...)}, nil
}

type RAKP4 struct {
	Tag, Status byte
	SIDM        uint32
	ICV         []byte
}

func (r *RAKP4) Bytes() []byte {
	b := []byte{r.Tag, r.Status, 0, 0}
	b = append(b, le32(r.SIDM)...)
	if r.Status != 0 {
		return b
	}
	return append(b, r.ICV...)
}
