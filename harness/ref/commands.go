package ref

import (
	"encoding/binary"
	"fmt"
)

// NetFn / command numbers (IPMI v2.0 appendix G, DCMI 1.5 table 6-1).
const (
	NetFnChassis = 0x00
	NetFnSensor  = 0x04
	NetFnApp     = 0x06
	NetFnStorage = 0x0A
	NetFnGroup   = 0x2C
	NetFnOEM     = 0x2E

	CmdGetDeviceID     = 0x01
	CmdGetSystemGUID   = 0x37
	CmdGetChanAuthCap  = 0x38
	CmdSetSessPriv     = 0x3B
	CmdCloseSession    = 0x3C
	CmdGetSessionInfo  = 0x3D
	CmdGetCipherSuites = 0x54
	CmdChassisStatus   = 0x01
	CmdChassisControl  = 0x02
	CmdSDRRepoInfo     = 0x20
	CmdReserveSDR      = 0x22
	CmdGetSDR          = 0x23
	CmdSensorReading   = 0x2D
	CmdDCMICaps        = 0x01
	CmdDCMIPower       = 0x02
	CmdDCMISensorInfo  = 0x07
	DCMIGroup          = 0xDC
)

// Req is a request parsed field by field per the specification tables.
type Req struct {
	Name   string
	NetFn  byte
	Cmd    byte
	LUN    byte
	Fields map[string]uint64
}

func (r *Req) Key() uint16 { return uint16(r.NetFn)<<8 | uint16(r.Cmd) }

func wantLen(name string, d []byte, n int) error {
	if len(d) != n {
		return fmt.Errorf("%s request body is %d bytes, want %d", name, len(d), n)
	}
	return nil
}

// ParseRequest parses the body of a request message sent to the BMC.
func ParseRequest(m *Msg) (*Req, error) {
	if m.NetFn&1 != 0 {
		return nil, fmt.Errorf("NetFn %#x is not a request", m.NetFn)
	}
	r := &Req{NetFn: m.NetFn, Cmd: m.Cmd, LUN: m.RsLUN, Fields: map[string]uint64{}}
	d := m.Data
	f := r.Fields
	switch uint16(m.NetFn)<<8 | uint16(m.Cmd) {
	case NetFnApp<<8 | CmdGetDeviceID:
		r.Name = "Get Device ID"
		return r, wantLen(r.Name, d, 0)
	case NetFnApp<<8 | CmdGetSystemGUID:
		r.Name = "Get System GUID"
		return r, wantLen(r.Name, d, 0)
	case NetFnApp<<8 | CmdGetChanAuthCap:
		r.Name = "Get Channel Authentication Capabilities"
		if err := wantLen(r.Name, d, 2); err != nil {
			return r, err
		}
		if d[0]&0x70 != 0 || d[1]&0xf0 != 0 {
			return r, fmt.Errorf("%s reserved bits set: % x", r.Name, d)
		}
		f["ext"] = uint64(d[0] >> 7)
		f["channel"] = uint64(d[0] & 0x0f)
		f["priv"] = uint64(d[1] & 0x0f)
	case NetFnApp<<8 | CmdSetSessPriv:
		r.Name = "Set Session Privilege Level"
		if err := wantLen(r.Name, d, 1); err != nil {
			return r, err
		}
		if d[0]&0xf0 != 0 {
			return r, fmt.Errorf("%s reserved bits set: % x", r.Name, d)
		}
		f["level"] = uint64(d[0])
	case NetFnApp<<8 | CmdCloseSession:
		r.Name = "Close Session"
		if len(d) != 4 && len(d) != 5 {
			return r, fmt.Errorf("%s body is %d bytes", r.Name, len(d))
		}
		id := binary.LittleEndian.Uint32(d)
		f["id"] = uint64(id)
		if id == 0 {
			if len(d) != 5 {
				return r, fmt.Errorf("%s with null ID lacks the handle", r.Name)
			}
			f["handle"] = uint64(d[4])
		} else if len(d) != 4 {
			return r, fmt.Errorf("%s with non-null ID carries a handle", r.Name)
		}
	case NetFnApp<<8 | CmdGetSessionInfo:
		r.Name = "Get Session Info"
		if len(d) < 1 {
			return r, fmt.Errorf("%s body empty", r.Name)
		}
		f["index"] = uint64(d[0])
		switch d[0] {
		case 0xFE:
			if err := wantLen(r.Name, d, 2); err != nil {
				return r, err
			}
			f["handle"] = uint64(d[1])
		case 0xFF:
			if err := wantLen(r.Name, d, 5); err != nil {
				return r, err
			}
			f["id"] = uint64(binary.LittleEndian.Uint32(d[1:]))
		default:
			if err := wantLen(r.Name, d, 1); err != nil {
				return r, err
			}
		}
	case NetFnApp<<8 | CmdGetCipherSuites:
		r.Name = "Get Channel Cipher Suites"
		if err := wantLen(r.Name, d, 3); err != nil {
			return r, err
		}
		if d[0]&0xf0 != 0 || d[1]&0xc0 != 0 || d[2]&0x40 != 0 {
			return r, fmt.Errorf("%s reserved bits set: % x", r.Name, d)
		}
		f["channel"] = uint64(d[0] & 0x0f)
		f["payloadType"] = uint64(d[1] & 0x3f)
		f["listAlgs"] = uint64(d[2] >> 7)
		f["index"] = uint64(d[2] & 0x3f)
	case NetFnChassis<<8 | CmdChassisStatus:
		r.Name = "Get Chassis Status"
		return r, wantLen(r.Name, d, 0)
	case NetFnChassis<<8 | CmdChassisControl:
		r.Name = "Chassis Control"
		if err := wantLen(r.Name, d, 1); err != nil {
			return r, err
		}
		if d[0]&0xf0 != 0 {
			return r, fmt.Errorf("%s reserved bits set: % x", r.Name, d)
		}
		f["control"] = uint64(d[0])
	case NetFnStorage<<8 | CmdSDRRepoInfo:
		r.Name = "Get SDR Repository Info"
		return r, wantLen(r.Name, d, 0)
	case NetFnStorage<<8 | CmdReserveSDR:
		r.Name = "Reserve SDR Repository"
		return r, wantLen(r.Name, d, 0)
	case NetFnStorage<<8 | CmdGetSDR:
		r.Name = "Get SDR"
		if err := wantLen(r.Name, d, 6); err != nil {
			return r, err
		}
		f["reservation"] = uint64(binary.LittleEndian.Uint16(d[0:]))
		f["record"] = uint64(binary.LittleEndian.Uint16(d[2:]))
		f["offset"] = uint64(d[4])
		f["count"] = uint64(d[5])
	case NetFnSensor<<8 | CmdSensorReading:
		r.Name = "Get Sensor Reading"
		if err := wantLen(r.Name, d, 1); err != nil {
			return r, err
		}
		f["number"] = uint64(d[0])
	case NetFnGroup<<8 | CmdDCMICaps, NetFnGroup<<8 | CmdDCMIPower, NetFnGroup<<8 | CmdDCMISensorInfo:
		if len(d) < 1 || d[0] != DCMIGroup {
			return r, fmt.Errorf("group extension request without DCMI identifier: % x", d)
		}
		d = d[1:]
		switch m.Cmd {
		case CmdDCMICaps:
			r.Name = "Get DCMI Capabilities Info"
			if err := wantLen(r.Name, d, 1); err != nil {
				return r, err
			}
			f["param"] = uint64(d[0])
		case CmdDCMIPower:
			r.Name = "Get Power Reading"
			if err := wantLen(r.Name, d, 3); err != nil {
				return r, err
			}
			if d[2] != 0 {
				return r, fmt.Errorf("%s reserved byte %#x", r.Name, d[2])
			}
			f["mode"] = uint64(d[0])
			f["period"] = uint64(d[1])
		case CmdDCMISensorInfo:
			r.Name = "Get DCMI Sensor Info"
			if err := wantLen(r.Name, d, 4); err != nil {
				return r, err
			}
			f["type"] = uint64(d[0])
			f["entity"] = uint64(d[1])
			f["instance"] = uint64(d[2])
			f["start"] = uint64(d[3])
		}
	default:
		r.Name = fmt.Sprintf("unknown %#x/%#x", m.NetFn, m.Cmd)
		return r, fmt.Errorf("unknown command NetFn %#x cmd %#x", m.NetFn, m.Cmd)
	}
	return r, nil
}

// ---------------------------------------------------------------------------
// Response encoders (body after the completion code).

func bit(b bool, n uint) byte {
	if b {
		return 1 << n
	}
	return 0
}

func le24(v uint32) []byte { return []byte{byte(v), byte(v >> 8), byte(v >> 16)} }
func le16(v uint16) []byte { return []byte{byte(v), byte(v >> 8)} }

// BCD2 encodes 0..99 as two BCD digits.
func BCD2(v byte) byte { return (v/10)<<4 | v%10 }

type DeviceID struct {
	ID           byte
	ProvidesSDRs bool
	Rev          byte // 4 bits
	Unavailable  bool // bit 7 of byte 3: device firmware/SDR update in progress
	FwMajor      byte // 7 bits
	FwMinor      byte // 0..99, BCD on the wire
	IPMIMajor    byte // low nibble
	IPMIMinor    byte // high nibble
	// additional device support bits 7..0
	Chassis, Bridge, EvtGen, EvtRcv, FRU, SEL, SDRRepo, Sensor bool
	IANA                                                       uint32 // 24 bits (20 used)
	Product                                                    uint16
	Aux                                                        *[4]byte
	Res1                                                       byte // reserved bits [6:4] of byte 2 (ignored by decoders)
}

func (d *DeviceID) Bytes() []byte {
	b := []byte{
		d.ID,
		bit(d.ProvidesSDRs, 7) | (d.Res1&7)<<4 | d.Rev&0x0f,
		bit(d.Unavailable, 7) | d.FwMajor&0x7f,
		BCD2(d.FwMinor),
		d.IPMIMinor<<4 | d.IPMIMajor&0x0f,
		bit(d.Chassis, 7) | bit(d.Bridge, 6) | bit(d.EvtGen, 5) | bit(d.EvtRcv, 4) | bit(d.FRU, 3) | bit(d.SEL, 2) | bit(d.SDRRepo, 1) | bit(d.Sensor, 0),
	}
	b = append(b, le24(d.IANA)...)
	b = append(b, le16(d.Product)...)
	if d.Aux != nil {
		b = append(b, d.Aux[:]...)
	}
	return b
}

type ChanAuthCap struct {
	Channel                                byte
	Ext, OEMAuth, Password, MD5, MD2, None bool
	KG, PerMsgBit, UserLevelBit            bool // raw bit values of byte 3 bits 5,4,3
	NonNull, Null, Anon                    bool
	V2, V15                                bool
	OEMIANA                                uint32
	OEMAux                                 byte
}

func (c *ChanAuthCap) Bytes() []byte {
	b := []byte{
		c.Channel,
		bit(c.Ext, 7) | bit(c.OEMAuth, 5) | bit(c.Password, 4) | bit(c.MD5, 2) | bit(c.MD2, 1) | bit(c.None, 0),
		bit(c.KG, 5) | bit(c.PerMsgBit, 4) | bit(c.UserLevelBit, 3) | bit(c.NonNull, 2) | bit(c.Null, 1) | bit(c.Anon, 0),
		bit(c.V2, 1) | bit(c.V15, 0),
	}
	b = append(b, le24(c.OEMIANA)...)
	return append(b, c.OEMAux)
}

type SessionInfo struct {
	Handle, Max, Active byte
	Form                int // 3, 6 or 18 bytes
	User, Priv          byte
	Version, Channel    byte // nibbles of byte 6
	IP                  [4]byte
	MAC                 [6]byte
	Port                uint16
}

func (s *SessionInfo) Bytes() []byte {
	b := []byte{s.Handle, s.Max, s.Active}
	if s.Form == 3 {
		return b
	}
	b = append(b, s.User&0x3f, s.Priv&0x0f, s.Version<<4|s.Channel&0x0f)
	if s.Form == 6 {
		return b
	}
	b = append(b, s.IP[:]...)
	b = append(b, s.MAC[:]...)
	return append(b, le16(s.Port)...)
}

type ChassisStatus struct {
	Policy                                         byte // 2 bits
	CtlFault, Fault, Interlock, Overload, On       bool
	IPMIOn, LFault, LInterlock, LOverload, LACFail bool
	IdentSupported                                 bool
	IdentState                                     byte // 2 bits
	Fan, Drive, Lockout, Intrusion                 bool
	Buttons                                        *byte
}

func (c *ChassisStatus) Bytes() []byte {
	b := []byte{
		(c.Policy&3)<<5 | bit(c.CtlFault, 4) | bit(c.Fault, 3) | bit(c.Interlock, 2) | bit(c.Overload, 1) | bit(c.On, 0),
		bit(c.IPMIOn, 4) | bit(c.LFault, 3) | bit(c.LInterlock, 2) | bit(c.LOverload, 1) | bit(c.LACFail, 0),
		bit(c.IdentSupported, 6) | (c.IdentState&3)<<4 | bit(c.Fan, 3) | bit(c.Drive, 2) | bit(c.Lockout, 1) | bit(c.Intrusion, 0),
	}
	if c.Buttons != nil {
		b = append(b, *c.Buttons)
	}
	return b
}

type SDRRepoInfo struct {
	VerMajor, VerMinor                     byte // digits; wire: [3:0] major [7:4] minor
	Count, Free                            uint16
	AddTS, EraseTS                         uint32
	Overflow                               bool
	ModalBits                              byte // [6:5]
	Delete, PartialAdd, Reserve, AllocInfo bool
}

func (s *SDRRepoInfo) Bytes() []byte {
	b := []byte{s.VerMinor<<4 | s.VerMajor&0x0f}
	b = append(b, le16(s.Count)...)
	b = append(b, le16(s.Free)...)
	b = append(b, le32(s.AddTS)...)
	b = append(b, le32(s.EraseTS)...)
	return append(b, bit(s.Overflow, 7)|(s.ModalBits&3)<<5|bit(s.Delete, 3)|bit(s.PartialAdd, 2)|bit(s.Reserve, 1)|bit(s.AllocInfo, 0))
}

type SensorReading struct {
	Reading                       byte
	Events, Scanning, Unavailable bool
	State1                        byte
	State2                        *byte
	ResBits                       byte // low 5 bits of byte 2 (reserved)
}

func (s *SensorReading) Bytes() []byte {
	b := []byte{s.Reading, bit(s.Events, 7) | bit(s.Scanning, 6) | bit(s.Unavailable, 5) | s.ResBits&0x1f, s.State1}
	if s.State2 != nil {
		b = append(b, *s.State2)
	}
	return b
}

// DCMI. Bodies exclude the DC group-extension byte.

type DCMIPower struct {
	Cur, Min, Max, Avg uint16
	TS, PeriodMS       uint32
	Active             bool
	ResBits            byte
}

func (p *DCMIPower) Bytes() []byte {
	b := le16(p.Cur)
	b = append(b, le16(p.Min)...)
	b = append(b, le16(p.Max)...)
	b = append(b, le16(p.Avg)...)
	b = append(b, le32(p.TS)...)
	b = append(b, le32(p.PeriodMS)...)
	return append(b, bit(p.Active, 6)|p.ResBits&0xbf)
}

type DCMISensorInfo struct {
	Total byte
	IDs   []uint16
}

func (s *DCMISensorInfo) Bytes() []byte {
	b := []byte{s.Total, byte(len(s.IDs))}
	for _, id := range s.IDs {
		b = append(b, le16(id)...)
	}
	return b
}

// ---------------------------------------------------------------------------
// Cipher suite records (22.15.1)

type SuiteRecord struct {
	OEM    bool
	ID     byte
	IANA   uint32
	Auth   byte
	Integs []byte
	Confs  []byte
}

func (r *SuiteRecord) Bytes() []byte {
	var b []byte
	if r.OEM {
		b = append([]byte{0xC1, r.ID}, le24(r.IANA)...)
	} else {
		b = []byte{0xC0, r.ID}
	}
	b = append(b, r.Auth&0x3f)
	for _, i := range r.Integs {
		b = append(b, 0x40|i&0x3f)
	}
	for _, c := range r.Confs {
		b = append(b, 0x80|c&0x3f)
	}
	return b
}

// ExpandedSuite is one (integrity, confidentiality) combination of a record.
type ExpandedSuite struct {
	ID                byte
	IANA              uint32
	Auth, Integ, Conf byte
}

// Expand gives the reference expansion: one entry per integrity x
// confidentiality combination (None when a class is absent), in order.
func (r *SuiteRecord) Expand() []ExpandedSuite {
	in := r.Integs
	if len(in) == 0 {
		in = []byte{0}
	}
	cn := r.Confs
	if len(cn) == 0 {
		cn = []byte{0}
	}
	var out []ExpandedSuite
	for _, i := range in {
		for _, c := range cn {
			e := ExpandedSuite{ID: r.ID, Auth: r.Auth & 0x3f, Integ: i & 0x3f, Conf: c & 0x3f}
			if r.OEM {
				e.IANA = r.IANA
			}
			out = append(out, e)
		}
	}
	return out
}
