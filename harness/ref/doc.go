// Package ref is an independent implementation of the IPMI v2.0 / DCMI wire
// formats used as the oracle for the bmc checks. It deliberately imports
// nothing from github.com/gebn/bmc.
package ref
