package ref

// SDR header, Full Sensor Record and ID string encoders (IPMI v2.0 43.1, 43.15).

const (
	RecFull    = 0x01
	RecCompact = 0x02
	RecEvent   = 0x03
	RecFRULoc  = 0x11
	RecMCLoc   = 0x12
	RecOEM     = 0xC0
)

// SDRHeader encodes the 5-byte record header.
func SDRHeader(id uint16, verMajor, verMinor, typ, remaining byte) []byte {
	return []byte{byte(id), byte(id >> 8), verMinor<<4 | verMajor&0x0f, typ, remaining}
}

const (
	EncUnicode = 0
	EncBCDPlus = 1
	Enc6Bit    = 2
	Enc8Bit    = 3
)

var bcdPlusChars = "0123456789 -.:,_"

// IDString is a generated ID string: the code units and the encoding.
type IDString struct {
	Enc   byte
	Codes []byte // per character: nibble (BCD+), 6-bit code, or byte (8-bit/unicode)
}

// Text is the reference decoding of the string as a sequence of code points.
func (s IDString) Runes() []rune {
	out := make([]rune, len(s.Codes))
	for i, c := range s.Codes {
		switch s.Enc {
		case EncBCDPlus:
			out[i] = rune(bcdPlusChars[c&0x0f])
		case Enc6Bit:
			out[i] = rune(c&0x3f) + 0x20
		default:
			out[i] = rune(c)
		}
	}
	return out
}

// Bytes is the wire encoding of the characters (without the type/length byte).
func (s IDString) Bytes() []byte {
	switch s.Enc {
	case EncBCDPlus:
		out := make([]byte, (len(s.Codes)+1)/2)
		for i, c := range s.Codes {
			if i%2 == 0 {
				out[i/2] |= (c & 0x0f) << 4
			} else {
				out[i/2] |= c & 0x0f
			}
		}
		return out
	case Enc6Bit:
		n := (len(s.Codes)*6 + 7) / 8
		out := make([]byte, n)
		for i, c := range s.Codes {
			bitpos := i * 6
			v := uint16(c&0x3f) << (bitpos % 8)
			out[bitpos/8] |= byte(v)
			if v>>8 != 0 {
				out[bitpos/8+1] |= byte(v >> 8)
			}
		}
		return out
	default:
		return append([]byte(nil), s.Codes...)
	}
}

// TypeLength is the type/length byte for the string.
func (s IDString) TypeLength() byte { return s.Enc<<6 | byte(len(s.Codes))&0x1f }

// FSR holds the Full Sensor Record fields the library exposes, plus filler for
// every other byte of the record so that neighbouring bits are exercised.
type FSR struct {
	Owner                                               byte
	Channel                                             byte // 4 bits
	LUN                                                 byte // 2 bits
	Number                                              byte
	Entity                                              byte
	Logical                                             bool
	Instance                                            byte // 7 bits
	Ignore                                              bool
	SensorType, ReadingType                             byte
	Format                                              byte // 2 bits
	Rate                                                byte // 3 bits
	Percentage                                          bool
	BaseUnit, ModUnit                                   byte
	Lin                                                 byte // 7 bits
	M, B                                                int  // -512..511
	Tol                                                 byte // 6 bits
	Acc                                                 int  // -512..511
	AccExp                                              byte // 2 bits
	Dir                                                 byte // 2 bits
	K2, K1                                              int  // -8..7 (R exponent, B exponent)
	NominalSpec, NormalMaxSpec, NormalMinSpec           bool
	Nominal, NormalMax, NormalMin, SensorMax, SensorMin byte
	Filler                                              [43]byte
	ID                                                  IDString
	Trailing                                            []byte // bytes after the ID string (OEM), may be empty
}

func tc(v int, bits uint) uint16 { return uint16(v) & (1<<bits - 1) }

// Body encodes the record key and body (everything after the 5-byte header).
func (f *FSR) Body() []byte {
	b := make([]byte, 43)
	copy(b, f.Filler[:])
	b[0] = f.Owner
	b[1] = f.Channel<<4 | f.LUN&3 // bits 3:2 reserved
	b[2] = f.Number
	b[3] = f.Entity
	b[4] = bit(f.Logical, 7) | f.Instance&0x7f
	b[6] = bit(f.Ignore, 7) | f.Filler[6]&0x7f
	b[7] = f.SensorType
	b[8] = f.ReadingType
	b[15] = f.Format<<6 | (f.Rate&7)<<3 | f.Filler[15]&0x06 | bit(f.Percentage, 0)
	b[16] = f.BaseUnit
	b[17] = f.ModUnit
	b[18] = f.Lin & 0x7f
	m, bb, a := tc(f.M, 10), tc(f.B, 10), tc(f.Acc, 10)
	b[19] = byte(m)
	b[20] = byte(m>>8)<<6 | f.Tol&0x3f
	b[21] = byte(bb)
	b[22] = byte(bb>>8)<<6 | byte(a)&0x3f
	b[23] = byte(a>>6)<<4 | (f.AccExp&3)<<2 | f.Dir&3
	b[24] = byte(tc(f.K2, 4))<<4 | byte(tc(f.K1, 4))
	b[25] = bit(f.NormalMinSpec, 2) | bit(f.NormalMaxSpec, 1) | bit(f.NominalSpec, 0)
	b[26] = f.Nominal
	b[27] = f.NormalMax
	b[28] = f.NormalMin
	b[29] = f.SensorMax
	b[30] = f.SensorMin
	b[39], b[40] = 0, 0 // reserved
	b[42] = f.ID.TypeLength()
	b = append(b, f.ID.Bytes()...)
	return append(b, f.Trailing...)
}

// Record encodes header + body.
func (f *FSR) Record(id uint16) []byte {
	body := f.Body()
	return append(SDRHeader(id, 1, 5, RecFull, byte(len(body))), body...)
}

// RollingAvgSeconds decodes a DCMI rolling average time period byte.
func RollingAvgSeconds(b byte) int64 {
	mult := []int64{1, 60, 3600, 86400}[b>>6]
	return int64(b&0x3f) * mult
}

// RollingAvgByte encodes a whole number of seconds by the library's documented
// rule: anything >= 1 of the next larger unit is expressed (floored) in that
// unit; more than 63 days saturates.
func RollingAvgByte(sec int64) byte {
	switch {
	case sec < 60:
		return byte(sec)
	case sec < 3600:
		return byte(sec/60) | 0x40
	case sec < 86400:
		return byte(sec/3600) | 0x80
	default:
		d := sec / 86400
		if d > 63 {
			d = 63
		}
		return byte(d) | 0xC0
	}
}
