package c05

import (
	"context"
	"fmt"
	"os"
	"testing"

	"github.com/gebn/bmc"
	"github.com/gebn/bmc/pkg/ipmi"

	"verif/harness/hx"
	"verif/harness/memnet"
	"verif/harness/ref"
	"verif/harness/simbmc"
)

// Native fuzz targets (thorough tier). Each carries the semantic oracle inside:
// no panic, and the same result for the input in an exact-capacity slice and
// inside two differently poisoned larger buffers.

var hostile = [][]byte{
	{0x81, 0x1c, 0x63, 0x20, 0x04, 0x01, 0xdb},                   // 7-byte response-shaped message with valid checksums
	{0x00, 0x00, 0x00, 0x00, 0x01, 0x00, 0x00, 0x00},             // RAKP2-like, status OK, 8 bytes
	append(make([]byte, 31), 16),                                 // 32 bytes ending in pad length 16
	{0x06, 0xc0, 0, 0, 0, 0, 0, 0, 0, 0, 0x20, 0x00},             // session header claiming 32 payload bytes
	{0xC1, 0x80, 0x01, 0x02, 0x03},                               // OEM cipher suite record cut short
	{0x01, 0x00, 0x01, 0x7a, 0x5a, 0x02, 0x05},                   // DCMI capabilities, 4-byte body
	{0x00, 0x00, 0x51, 0x01, 0x2b},                               // SDR header announcing a 43-byte record
}

func FuzzDecoders(f *testing.F) {
	for i := range allDecoders {
		for _, h := range hostile {
			f.Add(uint16(i), h)
		}
	}
	f.Add(uint16(5), (&ref.Msg{RsAddr: 0x81, NetFn: 7, RqAddr: 0x20, Cmd: 1, Data: (&ref.DeviceID{ID: 0x20}).Bytes()}).Bytes())
	f.Add(uint16(22), (&ref.FSR{ID: ref.IDString{Enc: ref.Enc6Bit, Codes: []byte{1, 2, 3, 4, 5}}}).Body())
	f.Fuzz(func(t *testing.T, sel uint16, data []byte) {
		if len(data) > 512 {
			data = data[:512]
		}
		d := allDecoders[int(sel)%len(allDecoders)]
		if os.Getenv("VERIF_FUZZ_SELFTEST") != "" && len(data) > 3 && data[0] == 'B' {
			t.Fatalf("driver self-test: synthetic crasher")
		}
		if msg, key := checkInput(d, data); msg != "" && !ev.IsKnown(key) {
			fuzzFail(t, "FuzzDecoders", map[string]any{"decoder": d.name, "input": fmt.Sprintf("%x", data)}, fmt.Sprintf("[finding key %s] %s", key, msg))
		}
	})
}

// fuzzFail reports a failure of a fuzz target (seed corpus run or fuzzing) as a
// violation with a readable replay file, then fails the test.
func fuzzFail(t *testing.T, name string, input any, msg string) {
	t.Helper()
	ev.Violation(name, input, msg)
	t.Fatalf("%s", msg)
}

// FuzzRMCPPacket feeds whole datagrams to the registered gopacket decoders, the
// way the session-less connection decodes every reply.
func FuzzRMCPPacket(f *testing.F) {
	msg := (&ref.Msg{RsAddr: 0x81, NetFn: 7, RqAddr: 0x20, Cmd: 0x38, Data: (&ref.ChanAuthCap{Channel: 1, V2: true}).Bytes()}).Bytes()
	f.Add(ref.BuildPacket(&ref.Packet{PayloadType: ref.PTIPMI, Payload: msg}, 0, nil))
	f.Add(ref.BuildPacket(&ref.Packet{PayloadType: ref.PTOpenRsp, Payload: (&ref.OpenRsp{Priv: 4, SIDM: 1, SIDC: 2, Algs: [3]byte{1, 1, 1}}).Bytes()}, 0, nil))
	f.Add(ref.BuildPacket(&ref.Packet{PayloadType: ref.PTRAKP2, Payload: make([]byte, 60)}, 0, nil))
	f.Add(ref.BuildPacket(&ref.Packet{PayloadType: ref.PTOEM, OEMIANA: 7, Payload: []byte{1, 2, 3}}, 0, nil))
	for _, h := range hostile {
		f.Add(ref.BuildPacket(&ref.Packet{PayloadType: ref.PTIPMI, Payload: h}, 0, nil))
	}
	var dec decoder
	for _, d := range allDecoders {
		if d.name == "NewPacket/RMCP" {
			dec = d
		}
	}
	f.Fuzz(func(t *testing.T, data []byte) {
		if len(data) > 512 {
			data = data[:512]
		}
		if msg, key := checkInput(dec, data); msg != "" && !ev.IsKnown(key) {
			fuzzFail(t, "FuzzRMCPPacket", map[string]any{"input": fmt.Sprintf("%x", data)}, fmt.Sprintf("[finding key %s] %s", key, msg))
		}
	})
}

// FuzzInSessionReply wraps the fuzzed bytes as a correctly encrypted and signed
// in-session reply (a party knowing the keys) and delivers it to a pending
// command; the call must return without panicking.
func FuzzInSessionReply(f *testing.F) {
	for _, h := range hostile {
		f.Add(h, false)
		f.Add(h, true)
	}
	f.Add((&ref.Msg{RsAddr: 0x81, NetFn: 7, RqAddr: 0x20, RqSeq: 1, Cmd: 1, Data: (&ref.DeviceID{ID: 0x20}).Bytes()}).Bytes(), true)
	c := hx.Creds{User: "admin", Password: []byte("pw"), Priv: 4, Suite: ref.Suite{Auth: 1, Integ: 1, Conf: 1}, Seed: 9}
	f.Fuzz(func(t *testing.T, inner []byte, fix bool) {
		if len(inner) > 200 {
			inner = inner[:200]
		}
		if fix {
			inner = fixChecksums(append([]byte(nil), inner...))
		}
		w := hx.NewWorldFor(c, true)
		sess, err := w.T.NewV2Session(context.Background(), c.Opts())
		if err != nil {
			t.Fatalf("harness: %v", err)
		}
		first := true
		w.BMC.Intercept = func(b *simbmc.BMC, rx *simbmc.Rx) {
			if first && rx.Sess != nil && len(rx.Replies) > 0 {
				first = false
				rx.Replies = []memnet.Out{{Data: b.SessionPacket(rx.Sess, inner)}}
			}
		}
		ctx, cancel := w.Ctx(3)
		defer cancel()
		cmd := &ipmi.GetDeviceIDCmd{}
		func() {
			defer func() {
				if p := recover(); p != nil {
					fuzzFail(t, "FuzzInSessionReply", map[string]any{"inner": fmt.Sprintf("%x", inner)}, fmt.Sprintf("library panicked on an in-session reply with inner bytes % x: %v", inner, p))
				}
			}()
			sess.SendCommand(ctx, cmd)
		}()
	})
}

// FuzzCipherSuiteData serves the fuzzed bytes as cipher suite record data.
func FuzzCipherSuiteData(f *testing.F) {
	f.Add((&ref.SuiteRecord{ID: 3, Auth: 1, Integs: []byte{1}, Confs: []byte{1}}).Bytes())
	f.Add((&ref.SuiteRecord{OEM: true, ID: 0x81, IANA: 0x1234, Auth: 2, Integs: []byte{2, 3}, Confs: []byte{1, 2}}).Bytes())
	f.Add([]byte{0xC1, 0x80, 0x01, 0x02, 0x03})
	f.Add([]byte{0xC0})
	f.Fuzz(func(t *testing.T, data []byte) {
		if len(data) > 1100 {
			data = data[:1100]
		}
		for _, strict := range []bool{true, false} {
			w := hx.NewWorld(1, strict)
			w.BMC.SuiteRecords = data
			ctx, cancel := w.Ctx(80)
			func() {
				defer func() {
					if p := recover(); p != nil {
						fuzzFail(t, "FuzzCipherSuiteData", map[string]any{"data": fmt.Sprintf("%x", data)}, fmt.Sprintf("library panicked on cipher suite data % x: %v", data, p))
					}
				}()
				recs, err := bmc.RetrieveSupportedCipherSuites(ctx, w.T)
				if err != nil && recs != nil {
					fuzzFail(t, "FuzzCipherSuiteData", map[string]any{"data": fmt.Sprintf("%x", data)}, fmt.Sprintf("partial list returned together with an error for % x", data))
				}
			}()
			cancel()
		}
	})
	_ = fmt.Sprint
}
