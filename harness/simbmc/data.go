package simbmc

import (
	"verif/harness/ref"
)

// Record is one SDR as stored in the repository: full bytes including header.
type Record struct {
	ID    uint16
	Bytes []byte
}

// Repo is the SDR repository device.
type Repo struct {
	Records          []Record
	AddTS, EraseTS   uint32
	Reservation      uint16
	ReservationValid bool
	Info             ref.SDRRepoInfo // static parts (version, free space, flags)
	GetSDRCount      int             // number of Get SDR requests served (all outcomes)
	// CountOverride, if set, is reported as the record count instead of
	// len(Records) (lets a check serve generated repository info without
	// touching the records another command serves).
	CountOverride *uint16
	// MaxRead, if non-zero, is the most record bytes one Get SDR response can
	// carry: a longer read is refused with 0xCA (cannot return number of
	// requested data bytes), as BMCs with small message buffers do.
	MaxRead int
	// BeforeGetSDR, if set, runs before the k-th (1-based) Get SDR is answered.
	BeforeGetSDR func(r *Repo, k int)
}

// CancelReservation models any event that invalidates outstanding reservations.
func (r *Repo) CancelReservation() { r.ReservationValid = false }

func (r *Repo) find(id uint16) int {
	if len(r.Records) == 0 {
		return -1
	}
	if id == 0x0000 {
		return 0
	}
	if id == 0xFFFF {
		return len(r.Records) - 1
	}
	for i, rec := range r.Records {
		if rec.ID == id {
			return i
		}
	}
	return -1
}

// Data is everything the default handlers serve.
type Data struct {
	DeviceID    ref.DeviceID
	ChanAuthCap ref.ChanAuthCap
	SessionInfo ref.SessionInfo
	Chassis     ref.ChassisStatus
	Controls    []byte // chassis control values received
	Repo        Repo
	Sensors     map[uint16]ref.SensorReading // key = LUN<<8 | number
	DCMICaps    map[byte][]byte              // parameter -> major, minor, revision, data
	Power       ref.DCMIPower
	DCMIIDs     map[byte][]uint16 // entity ID -> record IDs
	DCMIErr     map[byte]byte     // entity ID -> completion code to return instead
	DCMIPage    int               // record IDs per response (default 8)
	DCMIReqs    []DCMISensorReq
	PrivLevel   byte
	PrivLimit   byte // if non-zero, requests for a higher level are refused with 0x81
	CipherReqs  int
}

type DCMISensorReq struct{ Type, Entity, Instance, Start byte }

func installDefaults(b *BMC) {
	b.Data.Sensors = map[uint16]ref.SensorReading{}
	b.Data.DCMICaps = map[byte][]byte{}
	b.Data.DCMIIDs = map[byte][]uint16{}
	b.Data.DCMIErr = map[byte]byte{}
	b.Data.DCMIPage = 8
	b.Data.PrivLevel = 4
	b.Data.DeviceID = ref.DeviceID{ID: 0x20, Rev: 1, FwMajor: 2, FwMinor: 17, IPMIMajor: 2, IPMIMinor: 0, Sensor: true, SDRRepo: true, IANA: 0x2A7C, Product: 0x0934}
	b.Data.ChanAuthCap = ref.ChanAuthCap{Channel: 1, Ext: true, V2: true, V15: true, NonNull: true}
	b.Data.SessionInfo = ref.SessionInfo{Handle: 1, Max: 4, Active: 1, Form: 6, User: 2, Priv: 4, Version: 1, Channel: 1}
	b.Data.Chassis = ref.ChassisStatus{On: true, Policy: 1}
	b.Data.Repo.Info = ref.SDRRepoInfo{VerMajor: 5, VerMinor: 1, Free: 0x1000, Reserve: true}

	h := b.Handlers
	h[key(ref.NetFnApp, ref.CmdGetDeviceID)] = func(b *BMC, rx *Rx) (byte, []byte) { return 0, b.Data.DeviceID.Bytes() }
	h[key(ref.NetFnApp, ref.CmdGetSystemGUID)] = func(b *BMC, rx *Rx) (byte, []byte) { return 0, b.GUID[:] }
	h[key(ref.NetFnApp, ref.CmdGetChanAuthCap)] = func(b *BMC, rx *Rx) (byte, []byte) { return 0, b.Data.ChanAuthCap.Bytes() }
	h[key(ref.NetFnApp, ref.CmdSetSessPriv)] = func(b *BMC, rx *Rx) (byte, []byte) {
		if rx.Sess == nil {
			return 0xD4, nil
		}
		l := byte(rx.Req.Fields["level"])
		if b.Data.PrivLimit != 0 && l > b.Data.PrivLimit {
			return 0x81, nil // requested level exceeds the user's limit
		}
		if l != 0 {
			b.Data.PrivLevel = l
		}
		return 0, []byte{b.Data.PrivLevel}
	}
	h[key(ref.NetFnApp, ref.CmdCloseSession)] = func(b *BMC, rx *Rx) (byte, []byte) {
		if rx.Sess == nil {
			return 0xD4, nil
		}
		id := uint32(rx.Req.Fields["id"])
		s := b.Sessions[id]
		if s == nil || s.State != "active" {
			return 0x87, nil
		}
		// the response is sent under the session being closed
		defer func() { s.State = "closed" }()
		return 0, nil
	}
	h[key(ref.NetFnApp, ref.CmdGetSessionInfo)] = func(b *BMC, rx *Rx) (byte, []byte) { return 0, b.Data.SessionInfo.Bytes() }
	h[key(ref.NetFnApp, ref.CmdGetCipherSuites)] = func(b *BMC, rx *Rx) (byte, []byte) {
		b.Data.CipherReqs++
		idx := int(rx.Req.Fields["index"])
		ch := byte(rx.Req.Fields["channel"])
		if ch == 0x0E {
			ch = 1
		}
		lo := idx * 16
		if lo > len(b.SuiteRecords) {
			lo = len(b.SuiteRecords)
		}
		hi := lo + 16
		if hi > len(b.SuiteRecords) {
			hi = len(b.SuiteRecords)
		}
		return 0, append([]byte{ch}, b.SuiteRecords[lo:hi]...)
	}
	h[key(ref.NetFnChassis, ref.CmdChassisStatus)] = func(b *BMC, rx *Rx) (byte, []byte) { return 0, b.Data.Chassis.Bytes() }
	h[key(ref.NetFnChassis, ref.CmdChassisControl)] = func(b *BMC, rx *Rx) (byte, []byte) {
		b.Data.Controls = append(b.Data.Controls, byte(rx.Req.Fields["control"]))
		return 0, nil
	}
	h[key(ref.NetFnStorage, ref.CmdSDRRepoInfo)] = func(b *BMC, rx *Rx) (byte, []byte) {
		i := b.Data.Repo.Info
		i.Count = uint16(len(b.Data.Repo.Records))
		if b.Data.Repo.CountOverride != nil {
			i.Count = *b.Data.Repo.CountOverride
		}
		i.AddTS, i.EraseTS = b.Data.Repo.AddTS, b.Data.Repo.EraseTS
		return 0, i.Bytes()
	}
	h[key(ref.NetFnStorage, ref.CmdReserveSDR)] = func(b *BMC, rx *Rx) (byte, []byte) {
		r := &b.Data.Repo
		r.Reservation++
		if r.Reservation == 0 {
			r.Reservation = 1
		}
		r.ReservationValid = true
		return 0, []byte{byte(r.Reservation), byte(r.Reservation >> 8)}
	}
	h[key(ref.NetFnStorage, ref.CmdGetSDR)] = func(b *BMC, rx *Rx) (byte, []byte) {
		r := &b.Data.Repo
		r.GetSDRCount++
		if r.BeforeGetSDR != nil {
			r.BeforeGetSDR(r, r.GetSDRCount)
		}
		f := rx.Req.Fields
		off, cnt := int(f["offset"]), int(f["count"])
		if off != 0 && (!r.ReservationValid || uint16(f["reservation"]) != r.Reservation) {
			return 0xC5, nil
		}
		if uint16(f["reservation"]) != 0 && (!r.ReservationValid || uint16(f["reservation"]) != r.Reservation) {
			return 0xC5, nil
		}
		i := r.find(uint16(f["record"]))
		if i < 0 {
			return 0xCB, nil
		}
		rec := r.Records[i]
		next := uint16(0xFFFF)
		if i+1 < len(r.Records) {
			next = r.Records[i+1].ID
		}
		if cnt == 0xFF {
			cnt = len(rec.Bytes) - off
		}
		if r.MaxRead > 0 && cnt > r.MaxRead {
			return 0xCA, nil
		}
		if off > len(rec.Bytes) || off+cnt > len(rec.Bytes) {
			return 0xCA, nil
		}
		return 0, append([]byte{byte(next), byte(next >> 8)}, rec.Bytes[off:off+cnt]...)
	}
	h[key(ref.NetFnSensor, ref.CmdSensorReading)] = func(b *BMC, rx *Rx) (byte, []byte) {
		s, ok := b.Data.Sensors[uint16(rx.Req.LUN)<<8|uint16(rx.Req.Fields["number"])]
		if !ok {
			return 0xCB, nil
		}
		return 0, s.Bytes()
	}
	h[key(ref.NetFnGroup, ref.CmdDCMICaps)] = func(b *BMC, rx *Rx) (byte, []byte) {
		body, ok := b.Data.DCMICaps[byte(rx.Req.Fields["param"])]
		if !ok {
			return 0xCC, nil
		}
		return 0, body
	}
	h[key(ref.NetFnGroup, ref.CmdDCMIPower)] = func(b *BMC, rx *Rx) (byte, []byte) { return 0, b.Data.Power.Bytes() }
	h[key(ref.NetFnGroup, ref.CmdDCMISensorInfo)] = func(b *BMC, rx *Rx) (byte, []byte) {
		f := rx.Req.Fields
		b.Data.DCMIReqs = append(b.Data.DCMIReqs, DCMISensorReq{byte(f["type"]), byte(f["entity"]), byte(f["instance"]), byte(f["start"])})
		ent := byte(f["entity"])
		if cc, bad := b.Data.DCMIErr[ent]; bad {
			return cc, nil
		}
		ids := b.Data.DCMIIDs[ent]
		start := int(f["start"])
		rsp := ref.DCMISensorInfo{Total: byte(len(ids))}
		if start >= 1 && start <= len(ids) {
			hi := start - 1 + b.Data.DCMIPage
			if hi > len(ids) {
				hi = len(ids)
			}
			rsp.IDs = ids[start-1 : hi]
		}
		return 0, rsp.Bytes()
	}
}
