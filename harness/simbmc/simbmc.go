// Package simbmc is a simulated, specification-conforming BMC built on package
// ref. It verifies everything it receives, logs every datagram with its verdicts
// and lets a check script its replies.
package simbmc

import (
	"bytes"
	"fmt"
	"strings"

	"verif/harness/memnet"
	"verif/harness/ref"
)

// PRNG is a splitmix64 generator; every value the BMC "chooses" comes from one
// seeded by the case generator, so a case is a pure function of its draws.
type PRNG struct{ s uint64 }

func NewPRNG(seed uint64) *PRNG { return &PRNG{seed} }

func (p *PRNG) Uint64() uint64 {
	p.s += 0x9E3779B97F4A7C15
	z := p.s
	z = (z ^ (z >> 30)) * 0xBF58476D1CE4E5B9
	z = (z ^ (z >> 27)) * 0x94D049BB133111EB
	return z ^ (z >> 31)
}

func (p *PRNG) Bytes(n int) []byte {
	b := make([]byte, n)
	for i := range b {
		b[i] = byte(p.Uint64())
	}
	return b
}

func (p *PRNG) Intn(n int) int { return int(p.Uint64() % uint64(n)) }

// Session is the BMC's view of an RMCP+ session.
type Session struct {
	ID        uint32 // the BMC's session ID (SIDC): what the console addresses
	ConsoleID uint32 // the console's session ID (SIDM): what the BMC addresses
	Suite     ref.Suite
	Priv      byte
	RAKP      ref.RAKP
	Kuid      []byte
	SIK       []byte
	K1, K2    []byte
	State     string // "open-req", "rakp1", "active", "closed"
	RAKP3OK   bool
	seenSeq map[uint32]bool
	InSeqs    []uint32 // sequence numbers received, in arrival order
	OutSeq    uint32
	Tag       byte
}

// Rx is the log record of one received datagram.
type Rx struct {
	N        int
	Raw      []byte
	Pkt      *ref.Packet
	PktErr   error
	Sess     *Session
	AuthOK   bool // AuthCode verified (or not required)
	Plain    []byte
	IV       [16]byte
	ConfPad  int
	Msg      *ref.Msg
	MsgErr   error
	Req      *ref.Req
	ReqErr   error
	OpenReq  *ref.OpenReq
	RAKP1    *ref.RAKP1
	RAKP3    *ref.RAKP3
	Problems []string // every deviation from the specification observed
	Replies  []memnet.Out
}

func (r *Rx) problem(f string, a ...any) { r.Problems = append(r.Problems, fmt.Sprintf(f, a...)) }

// Handler answers one parsed request with a completion code and body (for DCMI
// commands the body excludes the DC byte, which the BMC adds).
type Handler func(b *BMC, rx *Rx) (cc byte, body []byte)

// BMC is the simulated managed system.
type BMC struct {
	Users    map[string][]byte // username -> password (unpadded)
	KG       []byte            // nil when no BMC key is set
	GUID     [16]byte
	Rand     *PRNG
	Sessions map[uint32]*Session
	Log      []*Rx
	Handlers map[uint16]Handler
	// AcceptRC, if set, is asked whether the random number drawn for RAKP
	// Message 2 (in s.RAKP.RC) will do; it is redrawn until it does.
	AcceptRC func(b *BMC, s *Session) bool

	// OpenOverride, if set, decides the Open Session Response.
	OpenOverride func(b *BMC, rx *Rx, req *ref.OpenReq, def *ref.OpenRsp) *ref.OpenRsp
	// Intercept, if set, sees every exchange after the default replies have
	// been computed and may change rx.Replies.
	Intercept func(b *BMC, rx *Rx)

	// Fallback answers commands the reference does not know (harness-defined
	// extension commands).
	Fallback Handler
	// RawBodies are the response bodies RawFallback serves, by NetFn<<8|command.
	RawBodies map[uint16][]byte

	// RMCPSeq, if non-zero, is the RMCP sequence number of every IPMI-class reply
	// (default 0xFF).
	RMCPSeq byte

	// NumberPlain makes the BMC put a running, non-zero sequence number in the
	// packets it sends outside a session.
	NumberPlain bool
	plainCount  uint32

	// SuiteRecords advertised through Get Channel Cipher Suites.
	SuiteRecords []byte

	// data served by the default handlers
	Data Data
}

func key(netfn, cmd byte) uint16 { return uint16(netfn)<<8 | uint16(cmd) }

// New creates a BMC with the default command handlers.
func New(seed uint64) *BMC {
	b := &BMC{Users: map[string][]byte{}, Rand: NewPRNG(seed), Sessions: map[uint32]*Session{}, Handlers: map[uint16]Handler{}}
	copy(b.GUID[:], b.Rand.Bytes(16))
	installDefaults(b)
	return b
}

// Peer adapts the BMC to memnet.
func (b *BMC) Peer(d []byte) []memnet.Out {
	rx := b.Receive(d)
	return rx.Replies
}

func (b *BMC) newSessionID() uint32 {
	for {
		id := uint32(b.Rand.Uint64())
		if id != 0 {
			if _, dup := b.Sessions[id]; !dup {
				return id
			}
		}
	}
}

// Receive processes one datagram.
func (b *BMC) Receive(d []byte) *Rx {
	rx := &Rx{N: len(b.Log) + 1, Raw: append([]byte(nil), d...)}
	b.Log = append(b.Log, rx)
	b.process(rx)
	if b.Intercept != nil {
		b.Intercept(b, rx)
	}
	if b.RMCPSeq != 0 {
		// a BMC that numbers its RMCP messages (the console must still send 0xFF,
		// "no ACK wanted", in its own)
		for i := range rx.Replies {
			if d := rx.Replies[i].Data; len(d) >= 4 && d[0] == 0x06 && d[3] == 0x07 {
				d[2] = b.RMCPSeq
			}
		}
	}
	return rx
}

func (b *BMC) process(rx *Rx) {
	// find the session first so that the AuthCode length is known
	authLen := 0
	var sess *Session
	if len(rx.Raw) >= 4+12 && rx.Raw[4] == 0x06 {
		off := 6
		if rx.Raw[5]&0x3f == ref.PTOEM {
			off = 12
		}
		if len(rx.Raw) >= off+4 {
			id := uint32(rx.Raw[off]) | uint32(rx.Raw[off+1])<<8 | uint32(rx.Raw[off+2])<<16 | uint32(rx.Raw[off+3])<<24
			if id != 0 {
				sess = b.Sessions[id]
				if sess != nil {
					authLen = ref.IntegLen(sess.Suite.Integ)
				}
			}
		}
	}
	rx.Pkt, rx.PktErr = ref.ParsePacket(rx.Raw, authLen)
	if rx.PktErr != nil {
		rx.problem("datagram does not parse: %v", rx.PktErr)
		return
	}
	p := rx.Pkt
	if p.SessionID != 0 {
		b.inSession(rx, sess)
		return
	}
	if p.Seq != 0 {
		rx.problem("packet outside a session has sequence number %d", p.Seq)
	}
	if p.Encrypted || p.Authenticated {
		rx.problem("packet outside a session has encrypted/authenticated flags set")
	}
	switch p.PayloadType {
	case ref.PTIPMI:
		b.ipmi(rx, nil, p.Payload)
	case ref.PTOpenReq:
		b.openSession(rx)
	case ref.PTRAKP1:
		b.rakp1(rx)
	case ref.PTRAKP3:
		b.rakp3(rx)
	default:
		rx.problem("unexpected payload type %#x outside a session", p.PayloadType)
	}
}

func (b *BMC) plainReply(pt uint8, payload []byte) memnet.Out {
	p := &ref.Packet{PayloadType: pt, Payload: payload}
	if b.NumberPlain {
		// a BMC that numbers the packets it sends outside a session (the field is
		// specified as 0 there, but what the peer sends is not the library's choice)
		b.plainCount++
		p.Seq = b.plainCount
	}
	return memnet.Out{Data: ref.BuildPacket(p, 0, nil)}
}

func (b *BMC) openSession(rx *Rx) {
	req, err := ref.ParseOpenReq(rx.Pkt.Payload)
	if err != nil {
		rx.problem("open session request: %v", err)
		return
	}
	rx.OpenReq = req
	if req.SIDM == 0 {
		rx.problem("open session request with null console session ID")
	}
	def := &ref.OpenRsp{Tag: req.Tag, SIDM: req.SIDM}
	def.Priv = req.Priv
	if def.Priv == 0 {
		def.Priv = 4
	}
	for i := 0; i < 3; i++ {
		if req.Algs[i].Length == 0 {
			// wildcard: pick the mandatory algorithm of that class
			def.Algs[i] = 1
		} else {
			def.Algs[i] = req.Algs[i].Alg
		}
	}
	if !supported(ref.Suite{Auth: def.Algs[0], Integ: def.Algs[1], Conf: def.Algs[2]}) {
		def.Status = 0x11 // no cipher suite match
	}
	rsp := def
	if b.OpenOverride != nil {
		rsp = b.OpenOverride(b, rx, req, def)
		if rsp == nil {
			return
		}
	}
	if rsp.Status == 0 {
		if rsp.SIDC == 0 {
			rsp.SIDC = b.newSessionID()
		}
		s := &Session{ID: rsp.SIDC, ConsoleID: req.SIDM, Suite: ref.Suite{Auth: rsp.Algs[0], Integ: rsp.Algs[1], Conf: rsp.Algs[2]},
			Priv: rsp.Priv, State: "open-req", Tag: req.Tag}
		b.Sessions[s.ID] = s
		rx.Sess = s
	}
	rx.Replies = append(rx.Replies, b.plainReply(ref.PTOpenRsp, rsp.Bytes()))
}

func supported(s ref.Suite) bool {
	switch s.Auth {
	case ref.AuthSHA1, ref.AuthMD5, ref.AuthSHA256:
	default:
		return false
	}
	switch s.Integ {
	case ref.IntegNone, ref.IntegSHA1_96, ref.IntegMD5_128, ref.IntegSHA256128:
	default:
		return false
	}
	switch s.Conf {
	case ref.ConfNone, ref.ConfAES:
	default:
		return false
	}
	return true
}

func (b *BMC) rakp1(rx *Rx) {
	r1, err := ref.ParseRAKP1(rx.Pkt.Payload)
	if err != nil {
		rx.problem("RAKP1: %v", err)
		return
	}
	rx.RAKP1 = r1
	s := b.Sessions[r1.SIDC]
	if s == nil || s.State == "active" || s.State == "closed" {
		rx.Replies = append(rx.Replies, b.plainReply(ref.PTRAKP2, (&ref.RAKP2{Tag: r1.Tag, Status: 0x02}).Bytes()))
		return
	}
	rx.Sess = s
	pw, ok := b.Users[string(r1.User)]
	if !ok {
		rx.Replies = append(rx.Replies, b.plainReply(ref.PTRAKP2, (&ref.RAKP2{Tag: r1.Tag, Status: 0x0D, SIDM: s.ConsoleID}).Bytes()))
		return
	}
	s.Kuid = ref.PadKey(pw)
	s.RAKP = ref.RAKP{Auth: s.Suite.Auth, SIDM: s.ConsoleID, SIDC: s.ID, RM: r1.RM, GUID: b.GUID, Role: r1.Role, User: r1.User}
	copy(s.RAKP.RC[:], b.Rand.Bytes(16))
	// the BMC's random number is the BMC's to choose: a harness can have it
	// redrawn until the codes derived from it have a particular shape
	for i := 0; b.AcceptRC != nil && i < 400000 && !b.AcceptRC(b, s); i++ {
		copy(s.RAKP.RC[:], b.Rand.Bytes(16))
	}
	s.State = "rakp1"
	r2 := &ref.RAKP2{Tag: r1.Tag, SIDM: s.ConsoleID, RC: s.RAKP.RC, GUID: b.GUID, Code: s.RAKP.RAKP2Code(s.Kuid)}
	rx.Replies = append(rx.Replies, b.plainReply(ref.PTRAKP2, r2.Bytes()))
}

func (b *BMC) rakp3(rx *Rx) {
	r3, err := ref.ParseRAKP3(rx.Pkt.Payload)
	if err != nil {
		rx.problem("RAKP3: %v", err)
		return
	}
	rx.RAKP3 = r3
	s := b.Sessions[r3.SIDC]
	if s != nil && s.State == "active" && len(s.InSeqs) == 0 && r3.Status == 0 && bytes.Equal(s.RAKP.RAKP3Code(s.Kuid), r3.Code) {
		// a retransmitted RAKP3 whose RAKP4 was lost: answer again
		rx.Sess = s
		r4 := &ref.RAKP4{Tag: r3.Tag, SIDM: s.ConsoleID, ICV: s.RAKP.RAKP4ICV(s.SIK)}
		rx.Replies = append(rx.Replies, b.plainReply(ref.PTRAKP4, r4.Bytes()))
		return
	}
	if s == nil || s.State != "rakp1" {
		rx.Replies = append(rx.Replies, b.plainReply(ref.PTRAKP4, (&ref.RAKP4{Tag: r3.Tag, Status: 0x02}).Bytes()))
		return
	}
	rx.Sess = s
	if r3.Status != 0 {
		// the console aborts the exchange; no RAKP4 is sent
		s.State = "closed"
		return
	}
	want := s.RAKP.RAKP3Code(s.Kuid)
	if !bytes.Equal(want, r3.Code) {
		rx.problem("RAKP3 AuthCode mismatch: got % x want % x", r3.Code, want)
		s.State = "closed"
		rx.Replies = append(rx.Replies, b.plainReply(ref.PTRAKP4, (&ref.RAKP4{Tag: r3.Tag, Status: 0x0F, SIDM: s.ConsoleID}).Bytes()))
		return
	}
	s.RAKP3OK = true
	kg := s.Kuid
	if len(b.KG) > 0 {
		kg = ref.PadKey(b.KG)
	}
	s.SIK = s.RAKP.SIK(kg)
	s.K1 = ref.Kn(s.Suite.Auth, s.SIK, 1)
	s.K2 = ref.Kn(s.Suite.Auth, s.SIK, 2)
	s.State = "active"
	r4 := &ref.RAKP4{Tag: r3.Tag, SIDM: s.ConsoleID, ICV: s.RAKP.RAKP4ICV(s.SIK)}
	rx.Replies = append(rx.Replies, b.plainReply(ref.PTRAKP4, r4.Bytes()))
}

func (b *BMC) inSession(rx *Rx, s *Session) {
	p := rx.Pkt
	if s == nil {
		rx.problem("packet addressed to unknown session ID %#x", p.SessionID)
		return
	}
	rx.Sess = s
	if s.State != "active" {
		rx.problem("packet for session %#x in state %s", s.ID, s.State)
		return
	}
	if p.PayloadType != ref.PTIPMI {
		rx.problem("in-session payload type %#x", p.PayloadType)
		return
	}
	if s.Suite.Integ != ref.IntegNone {
		if !p.Authenticated {
			rx.problem("session negotiated integrity %d but packet is not authenticated", s.Suite.Integ)
			return
		}
		want := ref.IntegSum(s.Suite.Integ, s.K1, p.AuthRange)
		if !bytes.Equal(want, p.AuthCode) {
			rx.problem("AuthCode mismatch: got % x want % x", p.AuthCode, want)
			return
		}
	} else if p.Authenticated {
		rx.problem("session negotiated integrity None but packet has the authenticated flag set")
		return
	}
	rx.AuthOK = true
	s.InSeqs = append(s.InSeqs, p.Seq)
	if s.seenSeq == nil {
		s.seenSeq = map[uint32]bool{}
	}
	if s.seenSeq[p.Seq] {
		// 6.12.13: a packet whose sequence number was already received is a
		// duplicate and is silently dropped
		rx.problem("session sequence number %d was already used on this session; dropped as a replay", p.Seq)
		return
	}
	s.seenSeq[p.Seq] = true
	payload := p.Payload
	if s.Suite.Conf == ref.ConfAES {
		if !p.Encrypted {
			rx.problem("session negotiated AES but packet is not encrypted")
			return
		}
		iv, msg, pad, err := ref.AESDecrypt(s.K2, p.Payload)
		if err != nil {
			rx.problem("decryption: %v", err)
			return
		}
		rx.IV, rx.ConfPad = iv, pad
		if want := 15 - len(msg)%16; pad != want {
			rx.problem("confidentiality pad %d not minimal (want %d)", pad, want)
		}
		payload = msg
	} else if p.Encrypted {
		rx.problem("session negotiated confidentiality None but packet has the encrypted flag set")
		return
	}
	rx.Plain = payload
	b.ipmi(rx, s, payload)
}

// ipmi handles an IPMI message payload, inside (s != nil) or outside a session.
func (b *BMC) ipmi(rx *Rx, s *Session, payload []byte) {
	rx.Msg, rx.MsgErr = ref.ParseMsg(payload)
	if rx.MsgErr != nil {
		rx.problem("IPMI message: %v", rx.MsgErr)
		return
	}
	m := rx.Msg
	if m.RsAddr != ref.BMCAddr {
		rx.problem("responder address %#x, want 0x20", m.RsAddr)
	}
	if m.RqAddr != ref.ConsoleSWID {
		rx.problem("requester address %#x, want 0x81", m.RqAddr)
	}
	if m.RqLUN != 0 {
		rx.problem("requester LUN %d", m.RqLUN)
	}
	if m.IsResponse() {
		rx.problem("console sent a response-shaped message (NetFn %#x)", m.NetFn)
		return
	}
	rx.Req, rx.ReqErr = ref.ParseRequest(m)
	cc, body := byte(0xC1), []byte(nil)
	h := b.Handlers[key(m.NetFn, m.Cmd)]
	unknown := rx.Req == nil || rx.Req.Name == "" || strings.HasPrefix(rx.Req.Name, "unknown")
	switch {
	case rx.ReqErr == nil && h != nil:
		cc, body = h(b, rx)
	case rx.ReqErr != nil && unknown && b.Fallback != nil:
		cc, body = b.Fallback(b, rx)
	case rx.ReqErr != nil && !unknown:
		rx.problem("request body: %v", rx.ReqErr)
		cc = 0xC7 // request data length invalid
	}
	rsp := b.ResponseFor(m, cc, body)
	rx.Replies = append(rx.Replies, b.Wrap(s, rsp.Bytes()))
}

// ResponseFor builds the response message to a request.
func (b *BMC) ResponseFor(m *ref.Msg, cc byte, body []byte) *ref.Msg {
	rsp := &ref.Msg{RsAddr: m.RqAddr, NetFn: m.NetFn | 1, RsLUN: m.RqLUN, RqAddr: m.RsAddr, RqSeq: m.RqSeq, RqLUN: m.RsLUN, Cmd: m.Cmd, CC: cc}
	if m.NetFn == ref.NetFnGroup && len(m.Data) > 0 {
		rsp.Data = append([]byte{m.Data[0]}, body...)
	} else if m.NetFn == ref.NetFnOEM && len(m.Data) >= 3 {
		rsp.Data = append(append([]byte(nil), m.Data[:3]...), body...)
	} else {
		rsp.Data = body
	}
	return rsp
}

// Wrap puts an IPMI message payload into a datagram: session-less when s is nil,
// otherwise encrypted and authenticated as the session's suite demands.
func (b *BMC) Wrap(s *Session, msg []byte) memnet.Out {
	if s == nil {
		return b.plainReply(ref.PTIPMI, msg)
	}
	return memnet.Out{Data: b.SessionPacket(s, msg)}
}

// SessionPacket encodes msg as the next packet from the BMC in session s.
func (b *BMC) SessionPacket(s *Session, msg []byte) []byte {
	s.OutSeq++
	p := &ref.Packet{PayloadType: ref.PTIPMI, SessionID: s.ConsoleID, Seq: s.OutSeq, Payload: msg}
	if s.Suite.Conf == ref.ConfAES {
		var iv [16]byte
		copy(iv[:], b.Rand.Bytes(16))
		p.Payload = ref.AESEncrypt(s.K2, iv, msg)
		p.Encrypted = true
	}
	if s.Suite.Integ != ref.IntegNone {
		p.Authenticated = true
	}
	return ref.BuildPacket(p, s.Suite.Integ, s.K1)
}

// ActiveSession returns the single active session, if exactly one exists.
func (b *BMC) ActiveSession() *Session {
	var out *Session
	for _, s := range b.Sessions {
		if s.State == "active" {
			if out != nil {
				return nil
			}
			out = s
		}
	}
	return out
}

// AllProblems lists every problem logged so far, prefixed by datagram number.
func (b *BMC) AllProblems() []string {
	var out []string
	for _, rx := range b.Log {
		for _, p := range rx.Problems {
			out = append(out, fmt.Sprintf("datagram %d: %s", rx.N, p))
		}
	}
	return out
}

// RawFallback answers a command the reference does not know with the body
// registered for it in RawBodies (normal completion code), 0xC1 otherwise.
func RawFallback(b *BMC, rx *Rx) (byte, []byte) {
	if body, ok := b.RawBodies[key(rx.Msg.NetFn, rx.Msg.Cmd)]; ok {
		return 0, body
	}
	return 0xC1, nil
}
