// C04: only authentic packets addressed to this session are accepted as responses.
package c04

import (
	"context"
	"fmt"
	"testing"

	"github.com/gebn/bmc"
	"github.com/gebn/bmc/pkg/ipmi"
	"pgregory.net/rapid"

	"verif/harness/evid"
	"verif/harness/hx"
	"verif/harness/memnet"
	"verif/harness/ref"
	"verif/harness/simbmc"
)

var ev *evid.E

func TestMain(m *testing.M) {
	ev = evid.New("C04", "fault_enumeration",
		"for each of the 9 suites with integrity a session is opened and one command with a response body is sent; the first reply is replaced by an attack on the authentic reply R: "+
			"every single-bit flip and every truncation of R (enumerated for sampled R), or a forgery carrying a different value (authenticated flag cleared with/without trailer, AuthCode "+
			"empty/short/random/under K2, SIK, zeros or another session's K1/over a wrong range, wrong session ID with an otherwise valid AuthCode, unsigned plaintext payload, validly "+
			"signed payload with a bad confidentiality pad); replies to retransmissions are authentic. Oracle: the call returns an error or exactly the authentic value; a forgery is "+
			"never the basis of completion (>= 2 transmissions on success). Non-trivial = attack datagram differs from R; distinct by (suite, command, attack)")
	ev.Assume("a validly signed but unencrypted reply comes from the key holder and is authentic in the property's sense; it is not a forgery", "a confidentiality pad of exactly 16 bytes 01..10 is tolerated by the library by documented design (OpenSSL-style padding) and is not in the forgery catalogue",
		"replay of an old authentic packet is outside the property")
	evid.Main(m, ev)
}

// Attack describes what replaces the first reply.
type Attack struct {
	Kind  string // flip, cut, forge
	Bit   int    // flip: bit index into R
	Cut   int    // cut: length
	Forge string
	Param int
}

func (a Attack) String() string {
	switch a.Kind {
	case "flip":
		return fmt.Sprintf("flip bit %d", a.Bit)
	case "cut":
		return fmt.Sprintf("cut at %d", a.Cut)
	}
	return fmt.Sprintf("forge %s/%d", a.Forge, a.Param)
}

var forgeries = []string{"flag-cleared-trailer-kept", "flag-cleared-no-trailer", "authcode-empty", "authcode-short", "authcode-random", "authcode-k2", "authcode-sik", "authcode-zero-key",
	"authcode-other-session", "authcode-range-skips-first-byte", "authcode-range-includes-rmcp", "authcode-range-excludes-trailer", "wrong-session-id", "plaintext-unsigned",
	"plaintext-unsigned-wrong-id", "flag-set-no-trailer", "flag-set-ff-only", "plaintext-flag-set-no-trailer", "plaintext-flag-set-ff-only", "pad-bytes-wrong", "pad-length-large", "pad-longer-than-data", "pad-overlong",
	"addressed-to-bmc-session-id", "addressed-to-null-session", "addressed-to-byteswapped-id",
	"pad-two-bytes-swapped", "pad-reversed", "pad-zero-filled", "pad-same-bit-in-two-bytes",
	"authcode-zero-tail-cut", "authcode-zero-appended",
	"plaintext-unsigned-grid", "encrypted-unsigned-grid"}

// commands with a response body whose value the forger changes
var cmdNames = []string{"GetSystemGUID", "GetDeviceID", "GetChannelAuthenticationCapabilities"}

// forgeMessage returns the authentic response message with its value changed
// (and checksum recomputed).
func forgeMessage(auth []byte) []byte {
	m, err := ref.ParseMsg(auth)
	if err != nil || len(m.Data) == 0 {
		return auth
	}
	d := append([]byte(nil), m.Data...)
	for i := range d {
		d[i] ^= 0x5a
	}
	m.Data = d
	return m.Bytes()
}

// build assembles a datagram from parts with full control over every field.
type parts struct {
	enc, auth  bool
	sid, seq   uint32
	payload    []byte
	trailer    bool
	code       []byte
	pad        int
	rangeStart int // offset into the session header where the signed range starts (0 = auth type byte)
	ffOnly     int // no trailer, but this many 0xFF bytes after the payload
}

func sessionHeader(p parts) []byte {
	fl := byte(0)
	if p.enc {
		fl |= 0x80
	}
	if p.auth {
		fl |= 0x40
	}
	b := []byte{0x06, fl, byte(p.sid), byte(p.sid >> 8), byte(p.sid >> 16), byte(p.sid >> 24), byte(p.seq), byte(p.seq >> 8), byte(p.seq >> 16), byte(p.seq >> 24),
		byte(len(p.payload)), byte(len(p.payload) >> 8)}
	return append(b, p.payload...)
}

func attackDatagram(a Attack, R []byte, s *simbmc.Session, b *simbmc.BMC, other *simbmc.Session) []byte {
	switch a.Kind {
	case "flip":
		d := append([]byte(nil), R...)
		d[a.Bit/8] ^= 1 << uint(a.Bit%8)
		return d
	case "cut":
		return append([]byte(nil), R[:a.Cut]...)
	}
	// recover the authentic plaintext message and forge a different value
	pkt, err := ref.ParsePacket(R, ref.IntegLen(s.Suite.Integ))
	if err != nil {
		panic("harness: authentic reply does not parse: " + err.Error())
	}
	_, plain, _, err := ref.AESDecrypt(s.K2, pkt.Payload)
	if err != nil {
		panic("harness: authentic reply does not decrypt: " + err.Error())
	}
	forged := forgeMessage(plain)
	var iv [16]byte
	copy(iv[:], b.Rand.Bytes(16))
	switch a.Forge {
	case "authcode-zero-tail-cut":
		// a correctly signed packet (carrying the other value) whose AuthCode
		// happens to end in 0x00, delivered without those trailing zero bytes
		for try := 0; try < 20000; try++ {
			copy(iv[:], b.Rand.Bytes(16))
			d := ref.BuildPacket(&ref.Packet{Encrypted: true, Authenticated: true, PayloadType: ref.PTIPMI, SessionID: s.ConsoleID, Seq: pkt.Seq, Payload: ref.AESEncrypt(s.K2, iv, forged)}, s.Suite.Integ, s.K1)
			if d[len(d)-1] == 0 {
				for d[len(d)-1] == 0 {
					d = d[:len(d)-1]
				}
				return d
			}
		}
		panic("harness: no AuthCode ending in zero found")
	case "authcode-zero-appended":
		d := ref.BuildPacket(&ref.Packet{Encrypted: true, Authenticated: true, PayloadType: ref.PTIPMI, SessionID: s.ConsoleID, Seq: pkt.Seq, Payload: ref.AESEncrypt(s.K2, iv, forged)}, s.Suite.Integ, s.K1)
		return append(d, make([]byte, 1+a.Param%4)...)
	}
	encPayload := ref.AESEncrypt(s.K2, iv, forged)
	p := parts{enc: true, auth: true, sid: s.ConsoleID, seq: pkt.Seq, payload: encPayload, trailer: true}
	key, integ := s.K1, s.Suite.Integ
	sign := true
	switch a.Forge {
	case "flag-cleared-trailer-kept":
		p.auth = false
	case "flag-cleared-no-trailer":
		p.auth, p.trailer = false, false
	case "authcode-empty":
		sign, p.code = false, nil
	case "authcode-short":
		sign = false
	case "authcode-random":
		sign, p.code = false, b.Rand.Bytes(ref.IntegLen(integ))
	case "authcode-k2":
		key = s.K2
	case "authcode-sik":
		key = s.SIK
	case "authcode-zero-key":
		key = make([]byte, 20)
	case "authcode-other-session":
		key = other.K1
	case "authcode-range-skips-first-byte":
		p.rangeStart = 1
	case "authcode-range-includes-rmcp":
		p.rangeStart = -4
	case "authcode-range-excludes-trailer":
		p.rangeStart = 1000
	case "wrong-session-id":
		p.sid = s.ConsoleID ^ (1 << uint(a.Param%32))
	case "addressed-to-bmc-session-id":
		// fully signed and encrypted, but carrying the managed system's ID for the
		// session (the one the console puts in its requests) instead of the console's
		p.sid = s.ID
	case "addressed-to-null-session":
		p.sid = 0
	case "addressed-to-byteswapped-id":
		c := s.ConsoleID
		p.sid = c<<24 | c>>24 | (c&0xff00)<<8 | (c>>8)&0xff00
		if p.sid == c {
			p.sid = ^c
		}
	case "flag-set-no-trailer":
		p.trailer = false
	case "flag-set-ff-only":
		p.trailer, p.ffOnly = false, 1+a.Param%3
	case "plaintext-flag-set-no-trailer":
		p.enc, p.trailer, p.payload = false, false, forged
	case "plaintext-flag-set-ff-only":
		p.enc, p.trailer, p.payload, p.ffOnly = false, false, forged, 1+a.Param%3
	case "plaintext-unsigned":
		p.enc, p.auth, p.trailer, p.payload = false, false, false, forged
	case "plaintext-unsigned-grid", "encrypted-unsigned-grid":
		// no flag, no trailer, and every combination of a session ID an exemption could
		// be keyed on (null session, ours, the managed system's, all ones) with a
		// sequence number such an exemption could be keyed on (0, the authentic one, 1,
		// the next one); Param%16 == 0 is the datagram a session-less handler would send
		p.auth, p.trailer = false, false
		if a.Forge == "plaintext-unsigned-grid" {
			p.enc, p.payload = false, forged
		}
		p.sid = []uint32{0, s.ConsoleID, s.ID, 0xFFFFFFFF}[a.Param%16/4]
		p.seq = []uint32{0, pkt.Seq, 1, pkt.Seq + 1}[a.Param%4]
	case "plaintext-unsigned-wrong-id":
		p.enc, p.auth, p.trailer, p.payload = false, false, false, forged
		p.sid = s.ConsoleID + 1 + uint32(a.Param)
	case "pad-two-bytes-swapped", "pad-reversed", "pad-zero-filled", "pad-same-bit-in-two-bytes":
		// pads that are wrong in several positions at once (the errors of any two
		// positions may cancel in a sloppy comparison); the pad length byte is right
		n := 15 - len(forged)%16
		if n < 2 {
			n += 16 // not minimal, and wrong as well
		}
		pad := make([]byte, n)
		for i := range pad {
			pad[i] = byte(i + 1)
		}
		i, j := a.Param%n, (a.Param/n+a.Param%n+1)%n
		if i == j {
			j = (i + 1) % n
		}
		switch a.Forge {
		case "pad-two-bytes-swapped":
			pad[i], pad[j] = pad[j], pad[i]
		case "pad-reversed":
			for l, r := 0, n-1; l < r; l, r = l+1, r-1 {
				pad[l], pad[r] = pad[r], pad[l]
			}
		case "pad-zero-filled":
			for k := range pad {
				pad[k] = 0
			}
		case "pad-same-bit-in-two-bytes":
			bit := byte(1) << uint(a.Param%8)
			pad[i] ^= bit
			pad[j] ^= bit
		}
		pt := append(append(append([]byte(nil), forged...), pad...), byte(n))
		p.payload = ref.AESEncryptRaw(s.K2, iv, pt)
	case "pad-bytes-wrong", "pad-length-large", "pad-longer-than-data", "pad-overlong":
		n := 15 - len(forged)%16
		pt := append([]byte(nil), forged...)
		switch a.Forge {
		case "pad-overlong":
			// a pad that is consistent in itself (01, 02, ... n, then n) but one or
			// two whole blocks longer than alignment can ever need: 17..47 bytes
			n += 16 * (1 + a.Param%2)
			if n == 16 {
				n = 32
			}
			for i := 1; i <= n; i++ {
				pt = append(pt, byte(i))
			}
			pt = append(pt, byte(n))
		case "pad-bytes-wrong":
			if n == 0 {
				n = 16 // make room for at least one pad byte
			}
			for i := 1; i <= n; i++ {
				pt = append(pt, byte(i))
			}
			pt[len(forged)+a.Param%n] ^= byte(1 + a.Param%255)
			pt = append(pt, byte(n))
		case "pad-length-large":
			for i := 1; i <= n; i++ {
				pt = append(pt, byte(i))
			}
			pt = append(pt, byte(17+a.Param%239))
		case "pad-longer-than-data":
			for i := 1; i <= n; i++ {
				pt = append(pt, byte(i))
			}
			pt = append(pt, byte(len(pt)+1+a.Param%8))
		}
		p.payload = ref.AESEncryptRaw(s.K2, iv, pt)
	}
	hdr := sessionHeader(p)
	d := append(append([]byte(nil), ref.RMCPHeader...), hdr...)
	if !p.trailer {
		for i := 0; i < p.ffOnly; i++ {
			d = append(d, 0xFF)
		}
		return d
	}
	n := len(hdr) + 2
	pad := (4 - n%4) % 4
	for i := 0; i < pad; i++ {
		d = append(d, 0xFF)
	}
	d = append(d, byte(pad), 0x07)
	if sign {
		var rng []byte
		switch {
		case p.rangeStart == 1000:
			rng = d[4 : 4+len(hdr)]
		case p.rangeStart < 0:
			rng = d
		default:
			rng = d[4+p.rangeStart:]
		}
		p.code = ref.IntegSum(integ, key, rng)
	} else if a.Forge == "authcode-short" {
		full := ref.IntegSum(integ, key, d[4:])
		p.code = full[:1+a.Param%(len(full)-1)]
	}
	return append(d, p.code...)
}

type result struct {
	msg     string
	differs bool
	sends   int
	err     error
}

// runAttack opens a session, sends the command and attacks the first reply.
func runAttack(t *rapid.T, c hx.Creds, cmdName string, a Attack, fixedDraw int) (r result, R []byte) {
	return runAttackVia(t, c, cmdName, a, fixedDraw, nil)
}

// methods are the session's convenience methods (they may take their own route
// to the transport); cmdName gives the catalogue entry whose BMC-side data and
// reply they share.
var methods = map[string]struct {
	entry  string
	invoke func(ctx context.Context, s *bmc.V2Session) error
}{
	"GetDeviceID()":      {"GetDeviceID", func(ctx context.Context, s *bmc.V2Session) error { _, err := s.GetDeviceID(ctx); return err }},
	"GetChassisStatus()": {"GetChassisStatus", func(ctx context.Context, s *bmc.V2Session) error { _, err := s.GetChassisStatus(ctx); return err }},
	"GetSystemGUID()":    {"GetSystemGUID", func(ctx context.Context, s *bmc.V2Session) error { _, err := s.GetSystemGUID(ctx); return err }},
	"ChassisControl()": {"ChassisControl", func(ctx context.Context, s *bmc.V2Session) error {
		return s.ChassisControl(ctx, ipmi.ChassisControlPowerCycle)
	}},
	"Close()": {"GetDeviceID", func(ctx context.Context, s *bmc.V2Session) error { return s.Close(ctx) }},
}

// afterBusy, when set, makes the attacked reply the second one of the call: the
// first attempt is answered with an authentic "node busy", the retransmission with
// the attack datagram, and the caller's context ends during that attempt, so no
// authentic final reply is ever delivered.
var afterBusy bool

func runAttackVia(t *rapid.T, c hx.Creds, cmdName string, a Attack, fixedDraw int, invoke func(ctx context.Context, s *bmc.V2Session) error) (r result, R []byte) {
	w := hx.NewWorldFor(c, true)
	// a second user/session on the same BMC provides "another session's K1"
	w.BMC.Users["other"] = []byte("otherpw")
	oc := c
	oc.User, oc.Password = "other", []byte("otherpw")
	ctx := context.Background()
	if _, err := w.T.NewV2Session(ctx, oc.Opts()); err != nil {
		r.msg = "harness: second session failed: " + err.Error()
		return
	}
	var other *simbmc.Session
	for _, s := range w.BMC.Sessions {
		other = s
	}
	var rehearsal *simbmc.Rx
	sess, err := w.T.NewV2Session(ctx, c.Opts())
	if err != nil {
		r.msg = "harness: session failed: " + err.Error()
		return
	}
	var bs *simbmc.Session
	for _, s := range w.BMC.Sessions {
		if s.ID == sess.RemoteID {
			bs = s
		}
	}
	e := hx.CatalogueEntry(cmdName)
	var call *hx.Call
	if t != nil {
		call = e.Prepare(t, w.BMC)
	} else {
		g := rapid.Custom(func(t *rapid.T) int { call = e.Prepare(t, w.BMC); return 0 })
		g.Example(fixedDraw)
	}
	// what the session has been through before the attack: nothing, an ordinary
	// command, or a Close that did not go through (the BMC never answered it and
	// keeps the session open) - none of which changes what must be rejected
	switch (c.Seed >> 9) % 4 {
	case 1:
		// (a rehearsal of the command first, so that an authentic reply can be made
		// later even if the BMC finds nothing to answer)
		w.BMC.Intercept = func(b *simbmc.BMC, rx *simbmc.Rx) {
			if rx.Sess == bs && rx.Msg != nil && rx.ReqErr == nil {
				rehearsal = rx
			}
		}
		rctx, rcancel := w.Ctx(2)
		sess.SendCommand(rctx, call.Cmd)
		rcancel()
		call = call.Fresh()
		k := uint16(ref.NetFnApp)<<8 | uint16(ref.CmdCloseSession)
		orig := w.BMC.Handlers[k]
		w.BMC.Handlers[k] = func(b *simbmc.BMC, rx *simbmc.Rx) (byte, []byte) { return 0xD4, nil }
		w.BMC.Intercept = func(b *simbmc.BMC, rx *simbmc.Rx) { rx.Replies = nil }
		pctx, pcancel := w.Ctx(1)
		if err := sess.Close(pctx); err == nil {
			r.msg = "harness: Close succeeded without a reply"
		}
		pcancel()
		w.BMC.Handlers[k], w.BMC.Intercept = orig, nil
		ev.Label("attack-after-close-that-did-not-go-through")
	case 2:
		pctx, pcancel := w.Ctx(2)
		sess.GetChassisStatus(pctx)
		pcancel()
	}
	if r.msg != "" {
		return
	}
	first := true
	start := w.Net.Sends
	busySent := false
	w.BMC.Intercept = func(b *simbmc.BMC, rx *simbmc.Rx) {
		if rx.Sess == bs && len(rx.Replies) == 0 && first && rehearsal != nil && invoke == nil {
			// the BMC could make nothing of the request (it was not signed, say): the
			// attacker answers all the same, starting from the reply the BMC gave to
			// the same command earlier
			if h := b.Handlers[uint16(rehearsal.Msg.NetFn)<<8|uint16(rehearsal.Msg.Cmd)]; h != nil {
				cc, body := h(b, rehearsal)
				rx.Replies = []memnet.Out{b.Wrap(bs, b.ResponseFor(rehearsal.Msg, cc, body).Bytes())}
			}
		}
		if rx.Sess != bs || len(rx.Replies) == 0 || !first {
			return
		}
		if afterBusy && !busySent && rx.Msg != nil {
			busySent = true
			rx.Replies = []memnet.Out{b.Wrap(bs, b.ResponseFor(rx.Msg, 0xC0, nil).Bytes())}
			return
		}
		first = false
		R = append([]byte(nil), rx.Replies[0].Data...)
		if a.Kind == "flip" && a.Bit >= len(R)*8 || a.Kind == "cut" && a.Cut >= len(R) {
			return // out of range for this reply: deliver R itself
		}
		d := attackDatagram(a, R, bs, b, other)
		r.differs = string(d) != string(R)
		rx.Replies = []memnet.Out{{Data: d}}
	}
	budget := 6
	if afterBusy {
		budget = 2
	}
	cctx, cancel := w.Ctx(budget)
	defer cancel()
	if afterBusy {
		var err error
		if invoke != nil {
			err = invoke(cctx, sess)
		} else {
			_, err = sess.SendCommand(cctx, call.Cmd)
		}
		r.sends, r.err = w.Net.Sends-start, err
		if err == nil && r.differs {
			r.msg = "the call returned a nil error although the only replies delivered were a node-busy answer and a datagram that is not authentic"
		}
		return
	}
	if invoke != nil {
		err := invoke(cctx, sess)
		r.sends, r.err = w.Net.Sends-start, err
		if err == nil && r.differs && r.sends < 2 {
			r.msg = fmt.Sprintf("the call completed after a single transmission although the only reply delivered was not the authentic one")
		}
		return
	}
	code, err := sess.SendCommand(cctx, call.Cmd)
	r.sends, r.err = w.Net.Sends-start, err
	if err != nil {
		return // an error is always acceptable
	}
	if code != ipmi.CompletionCodeNormal {
		r.msg = fmt.Sprintf("completion code %v returned, the authentic reply carried 0x00", code)
		return
	}
	if cerr := call.Check(); cerr != nil {
		r.msg = fmt.Sprintf("the caller received a value that is not the authentic one (after %d transmissions): %v", r.sends, cerr)
		return
	}
	if a.Kind == "forge" && r.differs && r.sends < 2 {
		r.msg = fmt.Sprintf("command completed after a single transmission although the only reply delivered was the forgery")
	}
	// every truncation removes at least the end of the AuthCode, and every bit
	// beyond the 4-byte RMCP header is either covered by the AuthCode or part of
	// it: such a datagram lacks a valid AuthCode and cannot be what the command
	// completed on, even if the value happens to be intact
	if r.differs && r.sends < 2 && (a.Kind == "cut" || (a.Kind == "flip" && a.Bit >= 32)) {
		r.msg = fmt.Sprintf("command completed after a single transmission on a tampered datagram (%v) that cannot carry a valid AuthCode", a)
	}
	return
}

func record(c hx.Creds, cmd string, a Attack, r result) {
	ev.Eval()
	if !r.differs {
		ev.Label("ineffective")
		return
	}
	kind := a.Kind
	if kind == "forge" {
		kind = "forge:" + a.Forge
	}
	ev.Label(kind + ":" + c.Suite.String())
	ev.Label("attack:" + kind)
	out := "error"
	if r.err == nil {
		out = fmt.Sprintf("authentic value after %d transmissions", r.sends)
	}
	ev.NonTrivial(fmt.Sprintf("%v|%s|%v", c.Suite, cmd, a))
	ev.Sample(map[string]any{"suite": c.Suite.String(), "command": cmd, "attack": a.String(), "outcome": out})
}

func TestRandom(t *testing.T) {
	ev.Check(t, "TestRandom", ev.PickN(3000, 500000), func(t *rapid.T) {
		c := hx.Creds{User: "admin", Password: []byte("pw"), Priv: 4, Suite: rapid.SampledFrom(hx.Suites9()).Draw(t, "suite"), Seed: rapid.Uint64().Draw(t, "seed")}
		cmd := rapid.SampledFrom(cmdNames).Draw(t, "command")
		a := Attack{Kind: rapid.SampledFrom([]string{"forge", "forge", "forge", "flip", "cut"}).Draw(t, "kind")}
		switch a.Kind {
		case "flip":
			a.Bit = rapid.IntRange(0, 130*8).Draw(t, "bit")
		case "cut":
			a.Cut = rapid.IntRange(0, 130).Draw(t, "cut")
		default:
			a.Forge = rapid.SampledFrom(forgeries).Draw(t, "forgery")
			a.Param = rapid.IntRange(0, 1000).Draw(t, "param")
		}
		r, _ := runAttack(t, c, cmd, a, 0)
		if r.msg != "" {
			t.Fatalf("suite %v command %s attack %v: %s", c.Suite, cmd, a, r.msg)
		}
		record(c, cmd, a, r)
	})
}

func TestEnumerated(t *testing.T) {
	replies := ev.Pick(1, 8)
	for si, suite := range hx.Suites9() {
		for k := 0; k < replies; k++ {
			c := hx.Creds{User: "admin", Password: []byte("pw"), Priv: 4, Suite: suite, Seed: uint64(ev.Seed)*1000003 + uint64(si*97+k)}
			cmd := cmdNames[(si+k+int(ev.Seed))%len(cmdNames)]
			draw := si*131 + k*17 + int(ev.Seed)
			// learn the reply length with a harmless attack
			_, R := runAttack(nil, c, cmd, Attack{Kind: "cut", Cut: 1 << 20}, draw)
			if len(R) == 0 {
				t.Fatalf("no authentic reply captured for %v %s", suite, cmd)
			}
			var attacks []Attack
			for bit := 0; bit < len(R)*8; bit++ {
				attacks = append(attacks, Attack{Kind: "flip", Bit: bit})
			}
			for cut := 0; cut < len(R); cut++ {
				attacks = append(attacks, Attack{Kind: "cut", Cut: cut})
			}
			for _, f := range forgeries {
				for p := 0; p < 6; p++ {
					attacks = append(attacks, Attack{Kind: "forge", Forge: f, Param: p*37 + k})
				}
			}
			for _, a := range attacks {
				r, _ := runAttack(nil, c, cmd, a, draw)
				if r.msg != "" {
					ev.Violation("TestEnumerated", map[string]any{"suite": suite.String(), "command": cmd, "attack": a, "seed": c.Seed, "draw": draw}, r.msg)
					t.Fatalf("suite %v command %s attack %v: %s", suite, cmd, a, r.msg)
				}
				record(c, cmd, a, r)
			}
		}
	}
	ev.Label("enumeration-complete")
}

// TestHighLevelMethods: the forgery catalogue and a sample of bit flips against the
// first reply to each convenience method of a session, Close included.
func TestHighLevelMethods(t *testing.T) {
	names := []string{"GetDeviceID()", "GetChassisStatus()", "GetSystemGUID()", "ChassisControl()", "Close()"}
	n := 0
	for _, name := range names {
		m := methods[name]
		for _, f := range forgeries {
			for k := 0; k < ev.Pick(1, 6); k++ {
				n++
				suite := hx.Suites9()[(n+int(ev.Seed))%9]
				c := hx.Creds{User: "admin", Password: []byte("pw"), Priv: 4, Suite: suite, Seed: uint64(ev.Seed)*4099 + uint64(n)}
				a := Attack{Kind: "forge", Forge: f, Param: n*7 + k}
				r, _ := runAttackVia(nil, c, m.entry, a, n+int(ev.Seed), m.invoke)
				ev.Eval()
				if r.msg != "" {
					cs := map[string]any{"method": name, "suite": suite.String(), "attack": a.String()}
					ev.Violation("TestHighLevelMethods", cs, r.msg)
					t.Fatalf("%v: %s", cs, r.msg)
				}
				if r.differs {
					ev.NonTrivial(fmt.Sprintf("hl|%s|%s|%d", name, f, k))
				}
			}
		}
		ev.Label("high-level:" + name)
	}
}

// TestAfterTemporaryCode: the forgery catalogue against the reply to the
// retransmission that follows an authentic "node busy", with the caller's context
// ending in that attempt: whatever the rejected datagram left behind, the call
// must end with an error.
func TestAfterTemporaryCode(t *testing.T) {
	afterBusy = true
	defer func() { afterBusy = false }()
	n := 0
	for _, name := range cmdNames {
		for _, f := range forgeries {
			n++
			suite := hx.Suites9()[(n+int(ev.Seed))%9]
			c := hx.Creds{User: "admin", Password: []byte("pw"), Priv: 4, Suite: suite, Seed: uint64(ev.Seed)*8191 + uint64(n)}
			a := Attack{Kind: "forge", Forge: f, Param: n * 5}
			r, _ := runAttackVia(nil, c, name, a, n+int(ev.Seed), nil)
			ev.Eval()
			if r.msg != "" {
				cs := map[string]any{"command": name, "suite": suite.String(), "attack": a.String(), "afterNodeBusy": true}
				ev.Violation("TestAfterTemporaryCode", cs, r.msg)
				t.Fatalf("%v: %s", cs, r.msg)
			}
			if r.differs {
				ev.NonTrivial(fmt.Sprintf("afterbusy|%s|%s", name, f))
			}
		}
	}
	ev.Label("forgery-after-temporary-code")
}

func TestCoverage(t *testing.T) {
	need := []string{"enumeration-complete", "attack:flip", "attack:cut"}
	for _, f := range forgeries {
		need = append(need, "attack:forge:"+f)
	}
	ev.RequireLabels(t, 1, append(need, "high-level:Close()", "high-level:ChassisControl()", "forgery-after-temporary-code", "attack-after-close-that-did-not-go-through")...)
}
