// Package memnet is an in-memory implementation of the library's (internal)
// transport interface with UDP socket-queue semantics: a Send hands the datagram
// to the peer, appends whatever the peer emits to a FIFO, then returns one
// datagram from the FIFO or a timeout error if it is empty.
package memnet

import (
	"context"
	"errors"
	"net"
)

// ErrTimeout is returned by Send when no datagram is waiting, like a socket read
// deadline expiring.
var ErrTimeout = timeoutError{}

type timeoutError struct{}

func (timeoutError) Error() string   { return "memnet: i/o timeout (no reply)" }
func (timeoutError) Timeout() bool   { return true }
func (timeoutError) Temporary() bool { return true }

var ErrClosed = errors.New("memnet: use of closed transport")

// Out is one datagram emitted by the peer. Delay n > 0 postpones its arrival
// until the start of the n-th later Send (i.e. it is already waiting in the
// socket queue when that Send's own reply arrives).
type Out struct {
	Data  []byte
	Delay int
}

type pending struct {
	data []byte
	at   int
}

// Net is the transport. It is not safe for concurrent use, like the real one.
type Net struct {
	// Peer handles one datagram and returns what it emits.
	Peer func(d []byte) []Out
	// OnSend runs at the start of every Send with the 1-based send count.
	OnSend func(n int, d []byte)
	// Strict delivers each datagram in a slice with len == cap, so any read
	// past its end panics. Otherwise datagrams are delivered inside a reused
	// 512-byte buffer pre-filled with Poison, like the real receive buffer.
	Strict bool
	Poison byte

	Sends     int
	Sent      [][]byte // copies of every datagram transmitted
	Delivered [][]byte // copies of every datagram handed to the library
	Closed    bool

	queue [][]byte
	later []pending
	buf   [512]byte
}

func (n *Net) Address() net.Addr {
	return &net.UDPAddr{IP: net.IPv4(127, 0, 0, 1), Port: 623}
}

func (n *Net) Close() error {
	n.Closed = true
	return nil
}

// Inject places a datagram directly in the receive queue (an unsolicited packet).
func (n *Net) Inject(d []byte) { n.queue = append(n.queue, append([]byte(nil), d...)) }

// Drain discards every waiting and delayed datagram.
func (n *Net) Drain() { n.queue, n.later = nil, nil }

// QueueLen is the number of datagrams waiting.
func (n *Net) QueueLen() int { return len(n.queue) }

func (n *Net) Send(ctx context.Context, b []byte) ([]byte, error) {
	if n.Closed {
		return nil, ErrClosed
	}
	// an expired context makes the real transport fail on the write deadline
	// before anything is sent; a cancelled one is treated the same way here,
	// which is how the harness models expiry without a clock
	if err := ctx.Err(); err != nil {
		return nil, err
	}
	n.Sends++
	cp := append([]byte(nil), b...)
	n.Sent = append(n.Sent, cp)
	if n.OnSend != nil {
		n.OnSend(n.Sends, cp)
	}
	// datagrams whose delay has elapsed arrive first
	keep := n.later[:0]
	for _, p := range n.later {
		if p.at <= n.Sends {
			n.queue = append(n.queue, p.data)
		} else {
			keep = append(keep, p)
		}
	}
	n.later = keep
	if n.Peer != nil {
		for _, o := range n.Peer(cp) {
			d := append([]byte(nil), o.Data...)
			if o.Delay > 0 {
				n.later = append(n.later, pending{d, n.Sends + o.Delay})
			} else {
				n.queue = append(n.queue, d)
			}
		}
	}
	if len(n.queue) == 0 {
		return nil, ErrTimeout
	}
	d := n.queue[0]
	n.queue = n.queue[1:]
	n.Delivered = append(n.Delivered, d)
	if len(d) > len(n.buf) {
		d = d[:len(n.buf)] // a UDP read into a 512-byte buffer truncates
	}
	if n.Strict {
		out := make([]byte, len(d))
		copy(out, d)
		return out[:len(d):len(d)], nil
	}
	for i := range n.buf {
		n.buf[i] = n.Poison
	}
	copy(n.buf[:], d)
	return n.buf[:len(d)], nil
}
