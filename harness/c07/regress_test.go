package c07

import (
	"testing"

	"github.com/gebn/bmc/pkg/ipmi"
	"github.com/google/gopacket"

	"verif/harness/ref"
)

// Plain regression checks for the defects this property's check found (they do
// not depend on the generators).

func TestRegressionShortRAKP2(t *testing.T) {
	full := (&ref.RAKP2{Tag: 1, SIDM: 1}).Bytes()
	for n := 8; n < 40; n++ {
		var r ipmi.RAKPMessage2
		var err error
		func() {
			defer func() {
				if p := recover(); p != nil {
					err = nil
					ev.Violation("TestRegressionShortRAKP2", n, "panic decoding a short successful RAKP2")
					t.Fatalf("panic at %d bytes: %v", n, p)
				}
			}()
			err = r.DecodeFromBytes(exact(full[:n]), gopacket.NilDecodeFeedback)
		}()
		ev.Eval()
		if err == nil {
			ev.Violation("TestRegressionShortRAKP2", n, "successful RAKP Message 2 shorter than 40 bytes decoded without an error")
			t.Fatalf("%d-byte successful RAKP2 accepted", n)
		}
	}
}

func TestRegressionOpenSessionErrorForm(t *testing.T) {
	// 13.18: tag, status, max priv (0), reserved, console session ID
	b := []byte{0x05, 0x11, 0x00, 0x00, 0x78, 0x56, 0x34, 0x12}
	var r ipmi.OpenSessionRsp
	err := r.DecodeFromBytes(exact(b), gopacket.NilDecodeFeedback)
	ev.Eval()
	if err != nil || r.Tag != 5 || r.Status != 0x11 || r.RemoteConsoleSessionID != 0x12345678 {
		ev.Violation("TestRegressionOpenSessionErrorForm", "0511000078563412", "8-byte error form of the Open Session Response decoded wrongly")
		t.Fatalf("got %+v err %v", r, err)
	}
}

func TestRegressionEmptyIDString(t *testing.T) {
	for _, enc := range []byte{ref.EncUnicode, ref.Enc8Bit} {
		f := ref.FSR{Number: 1, ID: ref.IDString{Enc: enc}}
		var r ipmi.FullSensorRecord
		err := r.DecodeFromBytes(exact(f.Body()), gopacket.NilDecodeFeedback)
		ev.Eval()
		if err != nil || r.Identity != "" {
			ev.Violation("TestRegressionEmptyIDString", enc, "Full Sensor Record with an empty ID string rejected")
			t.Fatalf("enc %d: identity %q err %v", enc, r.Identity, err)
		}
	}
}
