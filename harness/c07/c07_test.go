// C07: responses decode exactly as specified; malformed ones are rejected.
package c07

import (
	"bytes"
	"context"
	"fmt"
	"testing"

	"github.com/gebn/bmc/pkg/dcmi"
	"github.com/gebn/bmc/pkg/ipmi"
	"github.com/google/gopacket"
	"pgregory.net/rapid"

	"verif/harness/evid"
	"verif/harness/hx"
	"verif/harness/memnet"
	"verif/harness/ref"
	"verif/harness/simbmc"
)

var ev *evid.E

func TestMain(m *testing.M) {
	ev = evid.New("C07", "exploration",
		"rapid-generated field values for every response layer -> independent reference encoder -> library decoder on an exact-capacity slice, compared field by field; the same "+
			"values read through the high-level API against the simulated BMC; rejection inputs: every wrong value of either checksum, covered bytes altered with the checksum kept, "+
			"wrapper length field exceeding the data by 1..64, every body length below the layer's minimum. Non-trivial = non-default field values / optional tail / corrupted covered "+
			"byte; distinct by layer + wire bytes")
	ev.Assume("where DCMI table 6-3 is ambiguous the reference follows the library's documented reading (SELMaxEntries = (byte1&0x0f)|byte2<<8, v1.0-only fields forced true for 1.1/1.5); bit positions are still checked",
		"PerMessageAuthentication/UserLevelAuthentication are compared as raw bit values (documented reading)",
		"8-bit ID strings use printable ASCII here; bytes >= 0x80 are C20's")
	evid.Main(m, ev)
}

func exact(b []byte) []byte {
	o := make([]byte, len(b))
	copy(o, b)
	return o[:len(o):len(o)]
}

// dcase is one generated decode case.
type dcase struct {
	name  string
	wire  []byte
	min   int // minimum body length the specification allows for this variant
	fresh func() gopacket.DecodingLayer
	cmp   func(l gopacket.DecodingLayer) error
	// mustReject, if set, says whether a body cut to this length (< min) is
	// still below every form the specification (and the library's documented
	// short forms) allows; nil means every shorter length must be rejected
}

// pendingReject, if set by genCase, says whether a body cut to this length
// (< min) must still be rejected; it covers the library's documented short
// forms. nil means every shorter length must be rejected.
var pendingReject func(cut int) bool

func genCase(t *rapid.T) dcase {
	switch rapid.IntRange(0, 19).Draw(t, "layer") {
	case 0:
		d := hx.GenDeviceID().Draw(t, "v")
		return dcase{"GetDeviceIDRsp", d.Bytes(), 11, func() gopacket.DecodingLayer { return &ipmi.GetDeviceIDRsp{} },
			func(l gopacket.DecodingLayer) error { return hx.CmpDeviceID(&d, l.(*ipmi.GetDeviceIDRsp)) }}
	case 1:
		g := rapid.SliceOfN(rapid.Byte(), 16, 16).Draw(t, "guid")
		return dcase{"GetSystemGUIDRsp", g, 16, func() gopacket.DecodingLayer { return &ipmi.GetSystemGUIDRsp{} },
			func(l gopacket.DecodingLayer) error {
				if got := l.(*ipmi.GetSystemGUIDRsp).GUID; !bytes.Equal(got[:], g) {
					return fmt.Errorf("GUID %x want %x", got, g)
				}
				return nil
			}}
	case 2:
		d := hx.GenChanAuthCap().Draw(t, "v")
		return dcase{"GetChannelAuthenticationCapabilitiesRsp", d.Bytes(), 8, func() gopacket.DecodingLayer { return &ipmi.GetChannelAuthenticationCapabilitiesRsp{} },
			func(l gopacket.DecodingLayer) error { return hx.CmpChanAuthCap(&d, l.(*ipmi.GetChannelAuthenticationCapabilitiesRsp)) }}
	case 3:
		d := hx.GenSessionInfo().Draw(t, "v")
		return dcase{fmt.Sprintf("GetSessionInfoRsp/%d", d.Form), d.Bytes(), 3, func() gopacket.DecodingLayer { return &ipmi.GetSessionInfoRsp{} },
			func(l gopacket.DecodingLayer) error { return hx.CmpSessionInfo(&d, l.(*ipmi.GetSessionInfoRsp)) }}
	case 4:
		d := hx.GenChassisStatus().Draw(t, "v")
		return dcase{fmt.Sprintf("GetChassisStatusRsp/%d", len(d.Bytes())), d.Bytes(), 3, func() gopacket.DecodingLayer { return &ipmi.GetChassisStatusRsp{} },
			func(l gopacket.DecodingLayer) error { return hx.CmpChassisStatus(&d, l.(*ipmi.GetChassisStatusRsp)) }}
	case 5:
		d := hx.GenSDRRepoInfo().Draw(t, "v")
		return dcase{"GetSDRRepositoryInfoRsp", d.Bytes(), 14, func() gopacket.DecodingLayer { return &ipmi.GetSDRRepositoryInfoRsp{} },
			func(l gopacket.DecodingLayer) error { return hx.CmpSDRRepoInfo(&d, l.(*ipmi.GetSDRRepositoryInfoRsp)) }}
	case 6:
		id := rapid.Uint16().Draw(t, "reservation")
		return dcase{"ReserveSDRRepositoryRsp", []byte{byte(id), byte(id >> 8)}, 2, func() gopacket.DecodingLayer { return &ipmi.ReserveSDRRepositoryRsp{} },
			func(l gopacket.DecodingLayer) error {
				if got := uint16(l.(*ipmi.ReserveSDRRepositoryRsp).ReservationID); got != id {
					return fmt.Errorf("reservation %#x want %#x", got, id)
				}
				return nil
			}}
	case 7:
		next := rapid.Uint16().Draw(t, "next")
		data := rapid.SliceOfN(rapid.Byte(), 0, 64).Draw(t, "data")
		return dcase{"GetSDRRsp", append([]byte{byte(next), byte(next >> 8)}, data...), 2, func() gopacket.DecodingLayer { return &ipmi.GetSDRRsp{} },
			func(l gopacket.DecodingLayer) error {
				g := l.(*ipmi.GetSDRRsp)
				if uint16(g.Next) != next || !bytes.Equal(g.LayerPayload(), data) {
					return fmt.Errorf("next %#x data %x; want %#x %x", g.Next, g.LayerPayload(), next, data)
				}
				return nil
			}}
	case 8:
		id, typ, rem := rapid.Uint16().Draw(t, "id"), rapid.Byte().Draw(t, "type"), rapid.Byte().Draw(t, "remaining")
		maj, mnr := byte(rapid.IntRange(0, 9).Draw(t, "maj")), byte(rapid.IntRange(0, 9).Draw(t, "min"))
		tail := rapid.SliceOfN(rapid.Byte(), 0, 20).Draw(t, "tail")
		return dcase{"SDR", append(ref.SDRHeader(id, maj, mnr, typ, rem), tail...), 5, func() gopacket.DecodingLayer { return &ipmi.SDR{} },
			func(l gopacket.DecodingLayer) error {
				g := l.(*ipmi.SDR)
				if uint16(g.ID) != id || g.Version != maj*10+mnr || uint8(g.Type) != typ || g.Length != rem || !bytes.Equal(g.LayerPayload(), tail) {
					return fmt.Errorf("got %+v payload %x; want id %#x version %d type %#x len %d payload %x", g, g.LayerPayload(), id, maj*10+mnr, typ, rem, tail)
				}
				return nil
			}}
	case 9, 10:
		f := hx.GenFSR().Draw(t, "v")
		return dcase{fmt.Sprintf("FullSensorRecord/enc%d", f.ID.Enc), f.Body(), 43, func() gopacket.DecodingLayer { return &ipmi.FullSensorRecord{} },
			func(l gopacket.DecodingLayer) error { return hx.CmpFSR(&f, l.(*ipmi.FullSensorRecord)) }}
	case 11:
		d := hx.GenSensorReading().Draw(t, "v")
		return dcase{fmt.Sprintf("GetSensorReadingRsp/%d", len(d.Bytes())), d.Bytes(), 3, func() gopacket.DecodingLayer { return &ipmi.GetSensorReadingRsp{} },
			func(l gopacket.DecodingLayer) error { return hx.CmpSensorReading(&d, l.(*ipmi.GetSensorReadingRsp)) }}
	case 12:
		lvl := byte(rapid.IntRange(0, 15).Draw(t, "level"))
		return dcase{"SetSessionPrivilegeLevelRsp", []byte{lvl}, 1, func() gopacket.DecodingLayer { return &ipmi.SetSessionPrivilegeLevelRsp{} },
			func(l gopacket.DecodingLayer) error {
				if got := byte(l.(*ipmi.SetSessionPrivilegeLevelRsp).PrivilegeLevel); got != lvl {
					return fmt.Errorf("level %d want %d", got, lvl)
				}
				return nil
			}}
	case 13:
		ch := byte(rapid.IntRange(0, 15).Draw(t, "channel"))
		chunk := rapid.SliceOfN(rapid.Byte(), 0, 16).Draw(t, "chunk")
		return dcase{"GetChannelCipherSuitesRsp", append([]byte{ch}, chunk...), 1, func() gopacket.DecodingLayer { return &ipmi.GetChannelCipherSuitesRsp{} },
			func(l gopacket.DecodingLayer) error {
				g := l.(*ipmi.GetChannelCipherSuitesRsp)
				if byte(g.Channel) != ch || !bytes.Equal(g.CipherSuiteRecordsChunk, chunk) {
					return fmt.Errorf("channel %d chunk %x; want %d %x", g.Channel, g.CipherSuiteRecordsChunk, ch, chunk)
				}
				return nil
			}}
	case 14:
		r := ref.OpenRsp{Tag: rapid.Byte().Draw(t, "tag"), Priv: byte(rapid.IntRange(0, 5).Draw(t, "priv")), SIDM: rapid.Uint32().Draw(t, "sidm"), SIDC: rapid.Uint32().Draw(t, "sidc")}
		for i := range r.Algs {
			r.Algs[i] = byte(rapid.IntRange(0, 0x3f).Draw(t, "alg"))
		}
		if rapid.IntRange(0, 3).Draw(t, "errForm") == 0 {
			r.Status = byte(rapid.IntRange(1, 255).Draw(t, "status"))
		}
		osMin, osReject := 36, func(cut int) bool { return cut != 1 || r.Tag == 0 } // a lone byte is the documented status-only form
		if r.Status != 0 {
			osMin = 7
		}
		pendingReject = osReject
		return dcase{name: fmt.Sprintf("OpenSessionRsp/status0=%v", r.Status == 0), wire: r.Bytes(), min: osMin, fresh: func() gopacket.DecodingLayer { return &ipmi.OpenSessionRsp{} },
			cmp: func(l gopacket.DecodingLayer) error {
				g := l.(*ipmi.OpenSessionRsp)
				if g.Tag != r.Tag || byte(g.Status) != r.Status || g.RemoteConsoleSessionID != r.SIDM {
					return fmt.Errorf("tag/status/console ID %d %d %#x; want %d %d %#x", g.Tag, g.Status, g.RemoteConsoleSessionID, r.Tag, r.Status, r.SIDM)
				}
				if r.Status == 0 && (byte(g.MaxPrivilegeLevel) != r.Priv || g.ManagedSystemSessionID != r.SIDC || byte(g.AuthenticationPayload.Algorithm) != r.Algs[0] ||
					byte(g.IntegrityPayload.Algorithm) != r.Algs[1] || byte(g.ConfidentialityPayload.Algorithm) != r.Algs[2]) {
					return fmt.Errorf("got %+v want %+v", g, r)
				}
				return nil
			}}
	case 15:
		r := ref.RAKP2{Tag: rapid.Byte().Draw(t, "tag"), SIDM: rapid.Uint32().Draw(t, "sidm")}
		copy(r.RC[:], rapid.SliceOfN(rapid.Byte(), 16, 16).Draw(t, "rc"))
		copy(r.GUID[:], rapid.SliceOfN(rapid.Byte(), 16, 16).Draw(t, "guid"))
		r.Code = rapid.SliceOfN(rapid.Byte(), 0, 32).Draw(t, "code")
		min := 40
		if rapid.IntRange(0, 3).Draw(t, "errForm") == 0 {
			r.Status = byte(rapid.IntRange(1, 255).Draw(t, "status"))
			min = 8
		}
		return dcase{fmt.Sprintf("RAKPMessage2/status0=%v", r.Status == 0), r.Bytes(), min, func() gopacket.DecodingLayer { return &ipmi.RAKPMessage2{} },
			func(l gopacket.DecodingLayer) error {
				g := l.(*ipmi.RAKPMessage2)
				if g.Tag != r.Tag || byte(g.Status) != r.Status || g.RemoteConsoleSessionID != r.SIDM {
					return fmt.Errorf("tag/status/console ID differ: %+v", g)
				}
				if r.Status == 0 && (g.ManagedSystemRandom != r.RC || g.ManagedSystemGUID != r.GUID || !bytes.Equal(g.AuthCode, r.Code)) {
					return fmt.Errorf("random/GUID/code differ: %+v want %+v", g, r)
				}
				return nil
			}}
	case 16:
		r := ref.RAKP4{Tag: rapid.Byte().Draw(t, "tag"), SIDM: rapid.Uint32().Draw(t, "sidm"), ICV: rapid.SliceOfN(rapid.Byte(), 0, 32).Draw(t, "icv")}
		if rapid.IntRange(0, 3).Draw(t, "errForm") == 0 {
			r.Status = byte(rapid.IntRange(1, 255).Draw(t, "status"))
		}
		return dcase{fmt.Sprintf("RAKPMessage4/status0=%v", r.Status == 0), r.Bytes(), 8, func() gopacket.DecodingLayer { return &ipmi.RAKPMessage4{} },
			func(l gopacket.DecodingLayer) error {
				g := l.(*ipmi.RAKPMessage4)
				if g.Tag != r.Tag || byte(g.Status) != r.Status || g.RemoteConsoleSessionID != r.SIDM || (r.Status == 0 && !bytes.Equal(g.ICV, r.ICV)) {
					return fmt.Errorf("got %+v want %+v", g, r)
				}
				return nil
			}}
	case 17:
		param := byte(rapid.IntRange(1, 5).Draw(t, "param"))
		c := hx.GenDCMICaps(param).Draw(t, "caps")
		cmd, check, _ := c.Command()
		capMin := len(c.Bytes())
		if param == 2 {
			capMin = 3 + 4 // a 4-byte parameter body is read as the v1.0 form (documented)
		}
		return dcase{fmt.Sprintf("DCMICaps/param%d/v1.%d", param, c.Minor), c.Bytes(), capMin, func() gopacket.DecodingLayer { return cmd.Response() },
			func(l gopacket.DecodingLayer) error { return check() }}
	case 18:
		d := hx.GenDCMIPower().Draw(t, "v")
		return dcase{"GetPowerReadingRsp", d.Bytes(), 17, func() gopacket.DecodingLayer { return &dcmi.GetPowerReadingRsp{} },
			func(l gopacket.DecodingLayer) error { return hx.CmpDCMIPower(&d, l.(*dcmi.GetPowerReadingRsp)) }}
	default:
		n := rapid.IntRange(0, 8).Draw(t, "ids")
		d := ref.DCMISensorInfo{Total: rapid.Byte().Draw(t, "total"), IDs: rapid.SliceOfN(rapid.Uint16(), n, n).Draw(t, "idlist")}
		return dcase{"GetDCMISensorInfoRsp", d.Bytes(), len(d.Bytes()), func() gopacket.DecodingLayer { return &dcmi.GetDCMISensorInfoRsp{} },
			func(l gopacket.DecodingLayer) error { return hx.CmpDCMISensorInfo(&d, l.(*dcmi.GetDCMISensorInfoRsp)) }}
	}
}

// TestDecoders: reference encoding of generated values decodes to those values;
// every length below the variant's minimum is rejected.
func TestDecoders(t *testing.T) {
	ev.Check(t, "TestDecoders", ev.Pick(40000, 1600000), func(t *rapid.T) {
		pendingReject = nil
		c := genCase(t)
		mustReject := pendingReject
		l := c.fresh()
		if err := l.DecodeFromBytes(exact(c.wire), gopacket.NilDecodeFeedback); err != nil {
			t.Fatalf("%s: valid encoding % x rejected: %v", c.name, c.wire, err)
		}
		ev.Eval()
		if err := c.cmp(l); err != nil {
			t.Fatalf("%s: decoded values differ from the encoded ones (% x): %v", c.name, c.wire, err)
		}
		// truncation below the minimum: one generated length per case
		if c.min > 0 {
			cut := rapid.IntRange(0, c.min-1).Draw(t, "cut")
			if mustReject != nil && !mustReject(cut) {
				return
			}
			l2 := c.fresh()
			if err := l2.DecodeFromBytes(exact(c.wire[:cut]), gopacket.NilDecodeFeedback); err == nil {
				t.Fatalf("%s: %d-byte body (minimum %d) was decoded without an error: % x", c.name, cut, c.min, c.wire[:cut])
			}
			ev.Eval()
			ev.Label("short:" + c.name)
		}
		ev.Label("decode:" + c.name)
		ev.NonTrivial(fmt.Sprintf("%s|%x", c.name, c.wire))
		ev.Sample(map[string]any{"layer": c.name, "wire": fmt.Sprintf("%x", c.wire)})
	})
}

// TestMessageAndWrapper: ref-built response messages and session wrappers decode
// to their values; corrupted checksums and oversized length fields are rejected.
func TestMessageAndWrapper(t *testing.T) {
	ev.Check(t, "TestMessageAndWrapper", ev.Pick(6000, 300000), func(t *rapid.T) {
		netfn := byte(rapid.SampledFrom([]int{1, 5, 7, 0x0b, 0x2d, 0x2f, 0x31}).Draw(t, "netfn"))
		m := &ref.Msg{RsAddr: 0x81, NetFn: netfn, RsLUN: byte(rapid.IntRange(0, 3).Draw(t, "rslun")), RqAddr: 0x20, RqSeq: byte(rapid.IntRange(0, 63).Draw(t, "seq")),
			RqLUN: byte(rapid.IntRange(0, 3).Draw(t, "rqlun")), Cmd: rapid.Byte().Draw(t, "cmd"), CC: rapid.Byte().Draw(t, "cc")}
		body := rapid.SliceOfN(rapid.Byte(), 0, 40).Draw(t, "body")
		prefix := 0
		if netfn == 0x2d {
			prefix = 1
		} else if netfn == 0x2f {
			prefix = 3
		}
		pre := rapid.SliceOfN(rapid.Byte(), prefix, prefix).Draw(t, "prefix")
		m.Data = append(append([]byte(nil), pre...), body...)
		w := m.Bytes()
		var g ipmi.Message
		if err := g.DecodeFromBytes(exact(w), gopacket.NilDecodeFeedback); err != nil {
			t.Fatalf("valid message % x rejected: %v", w, err)
		}
		ev.Eval()
		if byte(g.RemoteAddress) != m.RsAddr || byte(g.Function) != m.NetFn || byte(g.RemoteLUN) != m.RsLUN || byte(g.LocalAddress) != m.RqAddr || g.Sequence != m.RqSeq ||
			byte(g.LocalLUN) != m.RqLUN || byte(g.Command) != m.Cmd || byte(g.CompletionCode) != m.CC || !bytes.Equal(g.LayerPayload(), body) {
			t.Fatalf("message fields differ: % x decoded as %+v payload %x", w, g, g.LayerPayload())
		}
		if prefix == 1 && byte(g.Body) != pre[0] {
			t.Fatalf("body code %#x want %#x", g.Body, pre[0])
		}
		if prefix == 3 && uint32(g.Enterprise) != uint32(pre[0])|uint32(pre[1])<<8|uint32(pre[2])<<16 {
			t.Fatalf("enterprise %d want bytes %x", g.Enterprise, pre)
		}
		// corruptions
		switch rapid.IntRange(0, 2).Draw(t, "corruption") {
		case 0: // wrong checksum value
			pos := 2
			if rapid.Bool().Draw(t, "second") {
				pos = len(w) - 1
			}
			delta := byte(rapid.IntRange(1, 255).Draw(t, "delta"))
			b := exact(w)
			b[pos] += delta
			var x ipmi.Message
			if err := x.DecodeFromBytes(b, gopacket.NilDecodeFeedback); err == nil {
				t.Fatalf("message with checksum at offset %d changed by %d accepted: % x", pos, delta, b)
			}
			ev.Label("reject:checksum")
		case 1: // covered byte altered, checksum kept
			pos := rapid.IntRange(0, len(w)-2).Draw(t, "pos")
			if pos == 2 {
				pos = 3
			}
			delta := byte(rapid.IntRange(1, 255).Draw(t, "delta"))
			b := exact(w)
			b[pos] += delta
			var x ipmi.Message
			if err := x.DecodeFromBytes(b, gopacket.NilDecodeFeedback); err == nil {
				t.Fatalf("message with covered byte %d altered by %d and checksums kept accepted: % x", pos, delta, b)
			}
			ev.Label("reject:covered-byte")
		case 2: // session wrapper whose length field exceeds the data
			excess := rapid.IntRange(1, 64).Draw(t, "excess")
			p := ref.BuildPacket(&ref.Packet{PayloadType: ref.PTIPMI, Payload: w}, 0, nil)[4:]
			l := len(w) + excess
			p[10], p[11] = byte(l), byte(l>>8)
			var x ipmi.V2Session
			if err := x.DecodeFromBytes(exact(p), gopacket.NilDecodeFeedback); err == nil {
				t.Fatalf("session wrapper with length field %d over %d bytes of data accepted", l, len(w))
			}
			ev.Label("reject:length-field")
		}
		ev.Eval()
		// the wrapper itself, authenticated
		integ := rapid.SampledFrom([]uint8{0, ref.IntegSHA1_96, ref.IntegMD5_128, ref.IntegSHA256128}).Draw(t, "integ")
		key := rapid.SliceOfN(rapid.Byte(), 20, 20).Draw(t, "k1")
		pk := &ref.Packet{PayloadType: ref.PTIPMI, SessionID: rapid.Uint32().Draw(t, "sid"), Seq: rapid.Uint32().Draw(t, "sseq"), Payload: w, Authenticated: integ != 0,
			Encrypted: rapid.Bool().Draw(t, "encflag")}
		raw := ref.BuildPacket(pk, integ, key)[4:]
		x := ipmi.V2Session{IntegrityAlgorithm: hx.IntegHash(integ, key)}
		if err := x.DecodeFromBytes(exact(raw), gopacket.NilDecodeFeedback); err != nil {
			t.Fatalf("valid wrapper rejected: %v (% x)", err, raw)
		}
		if x.ID != pk.SessionID || x.Sequence != pk.Seq || x.Authenticated != pk.Authenticated || x.Encrypted != pk.Encrypted || !bytes.Equal(x.LayerPayload(), w) || int(x.Length) != len(w) {
			t.Fatalf("wrapper fields differ: %+v", x)
		}
		ev.Label(fmt.Sprintf("wrapper:integ%d", integ))
		ev.NonTrivial(fmt.Sprintf("msg|%x", w))
		ev.Sample(map[string]any{"layer": "Message+V2Session", "netfn": netfn, "wire": fmt.Sprintf("%x", w)})
	})
}

// TestChecksumSweep enumerates every wrong value of both checksums for a few
// messages, and every excess of the wrapper length field.
func TestChecksumSweep(t *testing.T) {
	msgs := []*ref.Msg{
		{RsAddr: 0x81, NetFn: 7, RqAddr: 0x20, RqSeq: 1, Cmd: 0x01, Data: (&ref.DeviceID{ID: 0x20, Sensor: true}).Bytes()},
		{RsAddr: 0x81, NetFn: 0x2d, RqAddr: 0x20, RqSeq: 1, Cmd: 0x02, Data: append([]byte{0xdc}, (&ref.DCMIPower{Cur: 100}).Bytes()...)},
		{RsAddr: 0x81, NetFn: 1, RqAddr: 0x20, RqSeq: 63, Cmd: 0x02, CC: 0xc0},
	}
	for mi, m := range msgs {
		w := m.Bytes()
		for _, pos := range []int{2, len(w) - 1} {
			for v := 0; v < 256; v++ {
				b := exact(w)
				b[pos] = byte(v)
				var x ipmi.Message
				err := x.DecodeFromBytes(b, gopacket.NilDecodeFeedback)
				ev.Eval()
				if (err == nil) != (byte(v) == w[pos]) {
					ev.Violation("TestChecksumSweep", map[string]any{"msg": fmt.Sprintf("%x", w), "pos": pos, "value": v}, fmt.Sprintf("checksum value %#x: err=%v", v, err))
					t.Fatalf("message %d checksum at %d value %#x: err=%v", mi, pos, v, err)
				}
				if byte(v) != w[pos] {
					ev.NonTrivial(fmt.Sprintf("cs|%d|%d|%d", mi, pos, v))
				}
			}
		}
		for excess := 1; excess <= 64; excess++ {
			p := ref.BuildPacket(&ref.Packet{PayloadType: ref.PTIPMI, Payload: w}, 0, nil)[4:]
			l := len(w) + excess
			p[10], p[11] = byte(l), byte(l>>8)
			var x ipmi.V2Session
			ev.Eval()
			if err := x.DecodeFromBytes(exact(p), gopacket.NilDecodeFeedback); err == nil {
				ev.Violation("TestChecksumSweep", map[string]any{"wrapper": fmt.Sprintf("%x", p), "excess": excess}, "wrapper length field exceeding the data accepted")
				t.Fatalf("wrapper with length excess %d accepted", excess)
			}
			ev.NonTrivial(fmt.Sprintf("len|%d|%d", mi, excess))
		}
	}
	ev.Label("sweep:checksums")
}

// TestThroughAPI reads generated values through SendCommand against the
// simulated BMC, and checks that a corrupted reply yields an error from the call.
func TestThroughAPI(t *testing.T) {
	cat := hx.Catalogue()
	ev.Check(t, "TestThroughAPI", ev.Pick(3000, 150000), func(t *rapid.T) {
		creds := hx.Creds{User: "admin", Password: []byte("secret"), Priv: 4, Suite: rapid.SampledFrom(hx.Suites9()).Draw(t, "suite"), Seed: rapid.Uint64().Draw(t, "seed")}
		w := hx.NewWorldFor(creds, true)
		e := rapid.SampledFrom(cat).Draw(t, "command")
		inSession := e.Session || rapid.Bool().Draw(t, "inSession")
		var conn interface {
			SendCommand(context.Context, ipmi.Command) (ipmi.CompletionCode, error)
		} = w.T
		if inSession {
			sess, err := w.T.NewV2Session(context.Background(), creds.Opts())
			if err != nil {
				t.Fatalf("session: %v", err)
			}
			conn = sess
		}
		call := e.Prepare(t, w.BMC)
		corrupt := !inSession && rapid.IntRange(0, 2).Draw(t, "corrupt") == 0
		mode := 0
		if corrupt {
			mode = rapid.IntRange(0, 2).Draw(t, "mode")
			pos := rapid.IntRange(0, 1<<16).Draw(t, "pos")
			delta := byte(rapid.IntRange(1, 255).Draw(t, "delta"))
			w.BMC.Intercept = func(b *simbmc.BMC, rx *simbmc.Rx) {
				for i := range rx.Replies {
					d := rx.Replies[i].Data
					switch mode {
					case 0: // a byte of the IPMI message (covered by a checksum) altered
						d[16+pos%(len(d)-16)] += delta
					case 1: // wrapper length field larger than the data
						l := len(d) - 16 + 1 + pos%64
						d[14], d[15] = byte(l), byte(l>>8)
					case 2: // message cut below its minimum, length field fixed up
						cut := pos % 7
						d = d[:16+cut]
						d[14], d[15] = byte(cut), 0
						rx.Replies[i] = memnet.Out{Data: d}
					}
				}
			}
		}
		ctx, cancel := w.Ctx(1)
		defer cancel()
		code, err := conn.SendCommand(ctx, call.Cmd)
		ev.Eval()
		if corrupt {
			if err == nil {
				t.Fatalf("%s: corrupted reply (mode %d) produced no error (code %v); delivered % x", call.Name, mode, code, w.Net.Delivered)
			}
			ev.Label(fmt.Sprintf("api-reject:mode%d", mode))
			return
		}
		if err != nil {
			t.Fatalf("%s: %v; BMC problems %v", call.Name, err, w.BMC.AllProblems())
		}
		if call.Name != "Close Session" && code != 0 {
			t.Fatalf("%s: completion code %v", call.Name, code)
		}
		if code == 0 {
			if err := call.Check(); err != nil {
				t.Fatalf("%s: value read through the API differs: %v", call.Name, err)
			}
		}
		ev.Label(fmt.Sprintf("api:%s:session=%v", call.Name, inSession))
		ev.NonTrivial(fmt.Sprintf("api|%s|%s", call.Name, call.Summary()))
	})
}

func TestCoverage(t *testing.T) {
	ev.RequireLabels(t, 1, "reject:checksum", "reject:covered-byte", "reject:length-field", "decode:GetSessionInfoRsp/3", "decode:GetSessionInfoRsp/6", "decode:GetSessionInfoRsp/18",
		"decode:FullSensorRecord/enc0", "decode:FullSensorRecord/enc1", "decode:FullSensorRecord/enc2", "decode:FullSensorRecord/enc3", "decode:RAKPMessage2/status0=true",
		"decode:DCMICaps/param2/v1.0", "decode:DCMICaps/param2/v1.5", "api-reject:mode0", "api-reject:mode1", "api-reject:mode2", "sweep:checksums")
	_ = context.Background
}
