// C07: responses decode exactly as specified; malformed ones are rejected.
package c07

import (
	"bytes"
	"context"
	"fmt"
	"strings"
	"sync"
	"testing"
	"time"

	"github.com/gebn/bmc/pkg/dcmi"
	"github.com/gebn/bmc/pkg/ipmi"
	"github.com/google/gopacket"
	"pgregory.net/rapid"

	"verif/harness/evid"
	"verif/harness/hx"
	"verif/harness/memnet"
	"verif/harness/ref"
	"verif/harness/simbmc"
)

var ev *evid.E

func TestMain(m *testing.M) {
	ev = evid.New("C07", "exploration",
		"rapid-generated field values for every response layer -> independent reference encoder -> library decoder on an exact-capacity slice, compared field by field; the same "+
			"values read through the high-level API against the simulated BMC; rejection inputs: every wrong value of either checksum, covered bytes altered with the checksum kept, "+
			"wrapper length field exceeding the data by 1..64, every body length below the layer's minimum. Non-trivial = non-default field values / optional tail / corrupted covered "+
			"byte; distinct by layer + wire bytes")
	ev.Assume("where DCMI table 6-3 is ambiguous the reference follows the library's documented reading (SELMaxEntries = (byte1&0x0f)|byte2<<8, v1.0-only fields forced true for 1.1/1.5); bit positions are still checked",
		"PerMessageAuthentication/UserLevelAuthentication are compared as raw bit values (documented reading)",
		"8-bit ID strings use printable ASCII here; bytes >= 0x80 are C20's")
	evid.Main(m, ev)
}

func exact(b []byte) []byte {
	o := make([]byte, len(b))
	copy(o, b)
	return o[:len(o):len(o)]
}

func baseName(n string) string {
	if i := strings.Index(n, "/"); i > 0 {
		return n[:i]
	}
	return n
}

// TestDecoders: reference encoding of generated values decodes to those values;
// every length below the variant's minimum is rejected.
func TestDecoders(t *testing.T) {
	ev.Check(t, "TestDecoders", ev.PickN(40000, 1600000), func(t *rapid.T) {
		hx.PendingReject = nil
		c := hx.GenResponseCase(t)
		mustReject := hx.PendingReject
		l := c.Fresh()
		if err := l.DecodeFromBytes(exact(c.Wire), gopacket.NilDecodeFeedback); err != nil {
			t.Fatalf("%s: valid encoding % x rejected: %v", c.Name, c.Wire, err)
		}
		ev.Eval()
		if err := c.Cmp(l); err != nil {
			t.Fatalf("%s: decoded values differ from the encoded ones (% x): %v", c.Name, c.Wire, err)
		}
		// truncation below the minimum: one generated length per case
		if c.Min > 0 {
			cut := rapid.IntRange(0, c.Min-1).Draw(t, "cut")
			if mustReject != nil && !mustReject(cut) {
				return
			}
			l2 := c.Fresh()
			if err := l2.DecodeFromBytes(exact(c.Wire[:cut]), gopacket.NilDecodeFeedback); err == nil {
				t.Fatalf("%s: %d-byte body (minimum %d) was decoded without an error: % x", c.Name, cut, c.Min, c.Wire[:cut])
			}
			ev.Eval()
			ev.Label("short:" + c.Name)
		}
		ev.Label("decode:" + c.Name)
		ev.NonTrivial(fmt.Sprintf("%s|%x", c.Name, c.Wire))
		ev.Sample(map[string]any{"layer": c.Name, "wire": fmt.Sprintf("%x", c.Wire)})
	})
}

// TestMessageAndWrapper: ref-built response messages and session wrappers decode
// to their values; corrupted checksums and oversized length fields are rejected.
func TestMessageAndWrapper(t *testing.T) {
	ev.Check(t, "TestMessageAndWrapper", ev.PickN(6000, 300000), func(t *rapid.T) {
		netfn := byte(rapid.SampledFrom([]int{1, 5, 7, 0x0b, 0x2d, 0x2f, 0x31}).Draw(t, "netfn"))
		m := &ref.Msg{RsAddr: 0x81, NetFn: netfn, RsLUN: byte(rapid.IntRange(0, 3).Draw(t, "rslun")), RqAddr: 0x20, RqSeq: byte(rapid.IntRange(0, 63).Draw(t, "seq")),
			RqLUN: byte(rapid.IntRange(0, 3).Draw(t, "rqlun")), Cmd: rapid.Byte().Draw(t, "cmd"), CC: rapid.Byte().Draw(t, "cc")}
		body := rapid.SliceOfN(rapid.Byte(), 0, 40).Draw(t, "body")
		prefix := 0
		if netfn == 0x2d {
			prefix = 1
		} else if netfn == 0x2f {
			prefix = 3
		}
		pre := rapid.SliceOfN(rapid.Byte(), prefix, prefix).Draw(t, "prefix")
		m.Data = append(append([]byte(nil), pre...), body...)
		w := m.Bytes()
		var g ipmi.Message
		if err := g.DecodeFromBytes(exact(w), gopacket.NilDecodeFeedback); err != nil {
			t.Fatalf("valid message % x rejected: %v", w, err)
		}
		ev.Eval()
		if byte(g.RemoteAddress) != m.RsAddr || byte(g.Function) != m.NetFn || byte(g.RemoteLUN) != m.RsLUN || byte(g.LocalAddress) != m.RqAddr || g.Sequence != m.RqSeq ||
			byte(g.LocalLUN) != m.RqLUN || byte(g.Command) != m.Cmd || byte(g.CompletionCode) != m.CC || !bytes.Equal(g.LayerPayload(), body) {
			t.Fatalf("message fields differ: % x decoded as %+v payload %x", w, g, g.LayerPayload())
		}
		if prefix == 1 && byte(g.Body) != pre[0] {
			t.Fatalf("body code %#x want %#x", g.Body, pre[0])
		}
		if prefix == 3 && uint32(g.Enterprise) != uint32(pre[0])|uint32(pre[1])<<8|uint32(pre[2])<<16 {
			t.Fatalf("enterprise %d want bytes %x", g.Enterprise, pre)
		}
		// corruptions
		switch rapid.IntRange(0, 2).Draw(t, "corruption") {
		case 0: // wrong checksum value
			pos := 2
			if rapid.Bool().Draw(t, "second") {
				pos = len(w) - 1
			}
			delta := byte(rapid.IntRange(1, 255).Draw(t, "delta"))
			b := exact(w)
			b[pos] += delta
			var x ipmi.Message
			if err := x.DecodeFromBytes(b, gopacket.NilDecodeFeedback); err == nil {
				t.Fatalf("message with checksum at offset %d changed by %d accepted: % x", pos, delta, b)
			}
			ev.Label("reject:checksum")
		case 1: // covered byte altered, checksum kept
			pos := rapid.IntRange(0, len(w)-2).Draw(t, "pos")
			if pos == 2 {
				pos = 3
			}
			delta := byte(rapid.IntRange(1, 255).Draw(t, "delta"))
			b := exact(w)
			b[pos] += delta
			var x ipmi.Message
			if err := x.DecodeFromBytes(b, gopacket.NilDecodeFeedback); err == nil {
				t.Fatalf("message with covered byte %d altered by %d and checksums kept accepted: % x", pos, delta, b)
			}
			ev.Label("reject:covered-byte")
		case 2: // session wrapper whose length field exceeds the data
			excess := rapid.IntRange(1, 64).Draw(t, "excess")
			pt := rapid.SampledFrom([]uint8{ref.PTIPMI, ref.PTOEM, ref.PTOEM, ref.PTOpenRsp, ref.PTRAKP2, ref.PTRAKP4, 0x20}).Draw(t, "wrapperPayloadType")
			p := ref.BuildPacket(&ref.Packet{PayloadType: pt, OEMIANA: 0x4321, OEMPayloadID: 7, Payload: w}, 0, nil)[4:]
			l := len(w) + excess
			lo := 10
			if pt == ref.PTOEM {
				lo = 16
			}
			p[lo], p[lo+1] = byte(l), byte(l>>8)
			ev.Label(fmt.Sprintf("reject:length-field:pt%#x", pt))
			var x ipmi.V2Session
			if err := x.DecodeFromBytes(exact(p), gopacket.NilDecodeFeedback); err == nil {
				t.Fatalf("session wrapper with length field %d over %d bytes of data accepted", l, len(w))
			}
			ev.Label("reject:length-field")
		}
		ev.Eval()
		// the wrapper itself, authenticated
		integ := rapid.SampledFrom([]uint8{0, ref.IntegSHA1_96, ref.IntegMD5_128, ref.IntegSHA256128}).Draw(t, "integ")
		key := rapid.SliceOfN(rapid.Byte(), 20, 20).Draw(t, "k1")
		pk := &ref.Packet{PayloadType: ref.PTIPMI, SessionID: rapid.Uint32().Draw(t, "sid"), Seq: rapid.Uint32().Draw(t, "sseq"), Payload: w, Authenticated: integ != 0,
			Encrypted: rapid.Bool().Draw(t, "encflag")}
		raw := ref.BuildPacket(pk, integ, key)[4:]
		x := ipmi.V2Session{IntegrityAlgorithm: hx.IntegHash(integ, key)}
		if err := x.DecodeFromBytes(exact(raw), gopacket.NilDecodeFeedback); err != nil {
			t.Fatalf("valid wrapper rejected: %v (% x)", err, raw)
		}
		if x.ID != pk.SessionID || x.Sequence != pk.Seq || x.Authenticated != pk.Authenticated || x.Encrypted != pk.Encrypted || !bytes.Equal(x.LayerPayload(), w) || int(x.Length) != len(w) {
			t.Fatalf("wrapper fields differ: %+v", x)
		}
		ev.Label(fmt.Sprintf("wrapper:integ%d", integ))
		ev.NonTrivial(fmt.Sprintf("msg|%x", w))
		ev.Sample(map[string]any{"layer": "Message+V2Session", "netfn": netfn, "wire": fmt.Sprintf("%x", w)})
	})
}

// TestChecksumSweep enumerates every wrong value of both checksums for a few
// messages, and every excess of the wrapper length field.
func TestChecksumSweep(t *testing.T) {
	msgs := []*ref.Msg{
		{RsAddr: 0x81, NetFn: 7, RqAddr: 0x20, RqSeq: 1, Cmd: 0x01, Data: (&ref.DeviceID{ID: 0x20, Sensor: true}).Bytes()},
		{RsAddr: 0x81, NetFn: 0x2d, RqAddr: 0x20, RqSeq: 1, Cmd: 0x02, Data: append([]byte{0xdc}, (&ref.DCMIPower{Cur: 100}).Bytes()...)},
		{RsAddr: 0x81, NetFn: 1, RqAddr: 0x20, RqSeq: 63, Cmd: 0x02, CC: 0xc0},
	}
	for mi, m := range msgs {
		w := m.Bytes()
		for _, pos := range []int{2, len(w) - 1} {
			for v := 0; v < 256; v++ {
				b := exact(w)
				b[pos] = byte(v)
				var x ipmi.Message
				err := x.DecodeFromBytes(b, gopacket.NilDecodeFeedback)
				ev.Eval()
				if (err == nil) != (byte(v) == w[pos]) {
					ev.Violation("TestChecksumSweep", map[string]any{"msg": fmt.Sprintf("%x", w), "pos": pos, "value": v}, fmt.Sprintf("checksum value %#x: err=%v", v, err))
					t.Fatalf("message %d checksum at %d value %#x: err=%v", mi, pos, v, err)
				}
				if byte(v) != w[pos] {
					ev.NonTrivial(fmt.Sprintf("cs|%d|%d|%d", mi, pos, v))
				}
			}
		}
		for _, pt := range []uint8{ref.PTIPMI, ref.PTOEM} {
			for excess := 1; excess <= 64; excess++ {
				p := ref.BuildPacket(&ref.Packet{PayloadType: pt, OEMIANA: 0x99, OEMPayloadID: 3, Payload: w}, 0, nil)[4:]
				l := len(w) + excess
				lo := 10
				if pt == ref.PTOEM {
					lo = 16
				}
				p[lo], p[lo+1] = byte(l), byte(l>>8)
				// both in an exact-capacity slice and inside a larger buffer (where an
				// over-read would succeed silently)
				for _, in := range [][]byte{exact(p), append(append([]byte(nil), p...), make([]byte, 80)...)[:len(p)]} {
					var x ipmi.V2Session
					var err error
					func() {
						defer func() {
							if r := recover(); r != nil {
								err = nil
							}
						}()
						err = x.DecodeFromBytes(in, gopacket.NilDecodeFeedback)
					}()
					ev.Eval()
					if err == nil {
						ev.Violation("TestChecksumSweep", map[string]any{"wrapper": fmt.Sprintf("%x", p), "payloadType": pt, "excess": excess}, "wrapper length field exceeding the data accepted (or panicked)")
						t.Fatalf("wrapper (payload type %#x) with length excess %d accepted or panicked", pt, excess)
					}
				}
				ev.NonTrivial(fmt.Sprintf("len|%d|%d|%d", mi, pt, excess))
			}
		}
	}
	ev.Label("sweep:checksums")
}

// TestShortMessages: for each of the 64 network functions, IPMI messages of
// every total length 0..13 whose two checksums are valid for that length. The
// shortest well-formed message is 7 bytes for a request (no data) and 8 for a
// response (completion code), plus 1 for the group-extension body code and 3
// for the OEM enterprise number; anything shorter must be rejected, anything at
// least that long must decode with the fields at their places.
func TestShortMessages(t *testing.T) {
	sum := func(b []byte) byte {
		var c byte
		for _, x := range b {
			c += x
		}
		return -c
	}
	dom := ev.Domain("netfn x length", 64*14)
	for nf := 0; nf < 64; nf++ {
		min := 7
		if nf%2 == 1 {
			min = 8
		}
		switch nf {
		case 0x2c, 0x2d:
			min++
		case 0x2e, 0x2f:
			min += 3
		}
		for l := 0; l <= 13; l++ {
			b := make([]byte, l)
			tmpl := []byte{0x81, byte(nf)<<2 | 1, 0, 0x20, 0x2a<<2 | 2, 0x3b, 0xc1, 0xdc, 0xa5, 0x5a, 0x11, 0x22, 0x33}
			copy(b, tmpl)
			if l > 2 {
				b[2] = sum(b[:2])
			}
			if l > 3 {
				b[l-1] = sum(b[3 : l-1])
			}
			for _, in := range [][]byte{exact(b), append(append([]byte(nil), b...), 0x00, 0xc9, 0x00, 0x00)[:l]} {
				var m ipmi.Message
				var err error
				func() {
					defer func() {
						if r := recover(); r != nil {
							err = fmt.Errorf("panic: %v", r)
						}
					}()
					err = m.DecodeFromBytes(in, gopacket.NilDecodeFeedback)
				}()
				ev.Eval()
				cs := map[string]any{"netFn": fmt.Sprintf("%#02x", nf), "length": l, "message": fmt.Sprintf("%x", b)}
				if l < min && err == nil {
					ev.Violation("TestShortMessages", cs, fmt.Sprintf("a %d-byte message with NetFn %#x decoded without error (completion code %#x, %d payload bytes); the shortest well-formed one is %d bytes", l, nf, uint8(m.CompletionCode), len(m.LayerPayload()), min))
					t.Fatalf("%v: decoded without error", cs)
				}
				if l >= min {
					if err != nil {
						ev.Violation("TestShortMessages", cs, "well-formed message rejected: "+err.Error())
						t.Fatalf("%v: %v", cs, err)
					}
					wantCC, off := byte(0), 6
					if nf%2 == 1 {
						wantCC, off = b[6], 7
					}
					if uint8(m.Function) != byte(nf) || uint8(m.RemoteLUN) != 1 || uint8(m.Sequence) != 0x2a || uint8(m.LocalLUN) != 2 || uint8(m.Command) != 0x3b || uint8(m.CompletionCode) != wantCC || len(m.LayerPayload()) != l-min {
						ev.Violation("TestShortMessages", cs, fmt.Sprintf("fields differ: %+v (payload %x)", m, m.LayerPayload()))
						t.Fatalf("%v: fields differ: NetFn %#x cc %#x payload %x", cs, uint8(m.Function), uint8(m.CompletionCode), m.LayerPayload())
					}
					if (nf == 0x2c || nf == 0x2d) && uint8(m.Body) != b[off] {
						t.Fatalf("%v: body code %#x, want %#x", cs, uint8(m.Body), b[off])
					}
				}
			}
			dom.Visit(nf*14 + l)
			if l == min-1 {
				ev.NonTrivial(fmt.Sprintf("short|%d|%d", nf, l))
			}
		}
	}
	ev.Label("short-messages")
}

// viewOfPacket lists commands whose response exposes a variable-length byte
// slice that is a view of the decoded packet by design: the cipher-suite record
// chunk is documented as such ("references data in the decoded packet"), and Get
// SDR's record data is the gopacket layer payload. Every other value (numbers,
// flags, addresses, GUIDs, ID lists) must be the caller's own.
var viewOfPacket = map[string]bool{"Get SDR": true, "Get Channel Cipher Suites": true}

// TestThroughAPI reads generated values through SendCommand against the
// simulated BMC, and checks that a corrupted reply yields an error from the call.
func TestThroughAPI(t *testing.T) {
	cat := hx.Catalogue()
	ev.Check(t, "TestThroughAPI", ev.PickN(3000, 150000), func(t *rapid.T) {
		creds := hx.Creds{User: "admin", Password: []byte("secret"), Priv: 4, Suite: rapid.SampledFrom(hx.Suites9()).Draw(t, "suite"), Seed: rapid.Uint64().Draw(t, "seed")}
		// half of the cases deliver datagrams the way the real transport does: in
		// one receive buffer that the next datagram overwrites
		reusedBuffer := rapid.Bool().Draw(t, "reusedReceiveBuffer")
		w := hx.NewWorldFor(creds, !reusedBuffer)
		e := rapid.SampledFrom(cat).Draw(t, "command")
		inSession := e.Session || rapid.Bool().Draw(t, "inSession")
		var conn interface {
			SendCommand(context.Context, ipmi.Command) (ipmi.CompletionCode, error)
		} = w.T
		if inSession {
			sess, err := w.T.NewV2Session(context.Background(), creds.Opts())
			if err != nil {
				t.Fatalf("session: %v", err)
			}
			conn = sess
		}
		call := e.Prepare(t, w.BMC)
		corrupt := !inSession && rapid.IntRange(0, 2).Draw(t, "corrupt") == 0
		mode := 0
		if corrupt {
			mode = rapid.IntRange(0, 2).Draw(t, "mode")
			pos := rapid.IntRange(0, 1<<16).Draw(t, "pos")
			delta := byte(rapid.IntRange(1, 255).Draw(t, "delta"))
			w.BMC.Intercept = func(b *simbmc.BMC, rx *simbmc.Rx) {
				for i := range rx.Replies {
					d := rx.Replies[i].Data
					switch mode {
					case 0: // a byte of the IPMI message (covered by a checksum) altered
						d[16+pos%(len(d)-16)] += delta
					case 1: // wrapper length field larger than the data
						l := len(d) - 16 + 1 + pos%64
						d[14], d[15] = byte(l), byte(l>>8)
					case 2: // message cut below its minimum, length field fixed up
						cut := pos % 7
						d = d[:16+cut]
						d[14], d[15] = byte(cut), 0
						rx.Replies[i] = memnet.Out{Data: d}
					}
				}
			}
		}
		ctx, cancel := w.Ctx(1)
		defer cancel()
		code, err := conn.SendCommand(ctx, call.Cmd)
		ev.Eval()
		if corrupt {
			if err == nil {
				t.Fatalf("%s: corrupted reply (mode %d) produced no error (code %v); delivered % x", call.Name, mode, code, w.Net.Delivered)
			}
			ev.Label(fmt.Sprintf("api-reject:mode%d", mode))
			return
		}
		if err != nil {
			t.Fatalf("%s: %v; BMC problems %v", call.Name, err, w.BMC.AllProblems())
		}
		if call.Name != "Close Session" && code != 0 {
			t.Fatalf("%s: completion code %v", call.Name, code)
		}
		if code == 0 {
			if err := call.Check(); err != nil {
				t.Fatalf("%s: value read through the API differs: %v", call.Name, err)
			}
			// the value the caller holds must still be the BMC's after the connection
			// has received its next datagram (the receive buffer is reused)
			if reusedBuffer && !viewOfPacket[call.Name] && call.Name != "Close Session" {
				for _, next := range []ipmi.Command{&ipmi.GetSystemGUIDCmd{}, &ipmi.GetChannelAuthenticationCapabilitiesCmd{Req: ipmi.GetChannelAuthenticationCapabilitiesReq{Channel: ipmi.ChannelPresentInterface, MaxPrivilegeLevel: ipmi.PrivilegeLevelAdministrator}}} {
					ctx2, cancel2 := w.Ctx(1)
					conn.SendCommand(ctx2, next)
					cancel2()
				}
				if err := call.Check(); err != nil {
					t.Fatalf("%s: value read through the API changed after the next command on the connection: %v", call.Name, err)
				}
				ev.Label("api:value-survives-next-command")
			}
		}
		ev.Label(fmt.Sprintf("api:%s:session=%v", call.Name, inSession))
		ev.NonTrivial(fmt.Sprintf("api|%s|%s", call.Name, call.Summary()))
	})
}

// TestSensorInfoThroughAPI reads generated per-entity record-ID lists through
// dcmi.GetSensorInfo (one command value serves every entity and page, so response
// layers see lists of decreasing and increasing length) and requires the exact lists.
func TestSensorInfoThroughAPI(t *testing.T) {
	ev.Check(t, "TestSensorInfoThroughAPI", ev.PickN(1500, 80000), func(t *rapid.T) {
		creds := hx.Creds{User: "admin", Password: []byte("secret"), Priv: 4, Suite: rapid.SampledFrom(hx.Suites9()).Draw(t, "suite"), Seed: rapid.Uint64().Draw(t, "seed")}
		w := hx.NewWorldFor(creds, true)
		sess, err := w.T.NewV2Session(context.Background(), creds.Opts())
		if err != nil {
			t.Fatalf("session: %v", err)
		}
		b := w.BMC
		b.Data.DCMIPage = rapid.IntRange(1, 8).Draw(t, "page")
		useStd := rapid.Bool().Draw(t, "standardEntities")
		ents := []byte{0x40, 0x41, 0x42}
		if useStd {
			ents = []byte{0x37, 0x03, 0x07}
		}
		var want [3][]uint16
		shrink, total := false, 0
		for e := range ents {
			n := rapid.IntRange(0, 20).Draw(t, "instances")
			for i := 0; i < n; i++ {
				want[e] = append(want[e], rapid.Uint16Range(0, 0xfffe).Draw(t, "recordID"))
			}
			b.Data.DCMIIDs[ents[e]] = want[e]
			total += n
			if e > 0 && n%b.Data.DCMIPage < len(want[e-1])%b.Data.DCMIPage || n > b.Data.DCMIPage && n%b.Data.DCMIPage != 0 {
				shrink = true
			}
		}
		if useStd && total == 0 {
			useStd = false // the library falls back to the (empty) DCMI entity IDs
		}
		ctx, cancel := w.Ctx(200)
		info, err := dcmi.GetSensorInfo(ctx, sess)
		cancel()
		ev.Eval()
		if err != nil {
			t.Fatalf("GetSensorInfo: %v; BMC problems %v", err, w.BMC.AllProblems())
		}
		for e, got := range [][]ipmi.RecordID{info.Inlet, info.CPU, info.Baseboard} {
			if len(got) != len(want[e]) {
				t.Fatalf("entity %#x: got %v, the BMC holds %v (page size %d)", ents[e], got, want[e], b.Data.DCMIPage)
			}
			for i := range got {
				if uint16(got[i]) != want[e][i] {
					t.Fatalf("entity %#x: got %v, the BMC holds %v (page size %d)", ents[e], got, want[e], b.Data.DCMIPage)
				}
			}
		}
		if shrink {
			ev.Label("api:sensor-info:shorter-page-after-longer")
		}
		if total > 0 {
			ev.NonTrivial(fmt.Sprintf("sensorinfo|%v|%d|%v", want, b.Data.DCMIPage, useStd))
		}
	})
}

// TestCountFields sweeps every value of the count / length bytes that announce a
// variable-length tail (DCMI rolling-average periods, DCMI sensor record IDs,
// the ID-string type/length byte of a Full Sensor Record) against bodies that
// carry fewer, exactly as many, and more bytes than announced: fewer is an error
// (never a panic), the others decode to exactly the announced elements.
func TestCountFields(t *testing.T) {
	decode := func(l gopacket.DecodingLayer, wire []byte) (err error, pan any) {
		defer func() { pan = recover() }()
		return l.DecodeFromBytes(exact(wire), gopacket.NilDecodeFeedback), nil
	}
	fail := func(layer string, count, present int, msg string) {
		cs := map[string]any{"layer": layer, "announced": count, "present": present}
		ev.Violation("TestCountFields", cs, msg)
		t.Fatalf("%v: %s", cs, msg)
	}
	dom := ev.Domain("count byte x layer", 3*256)
	for c := 0; c <= 255; c++ {
		// DCMI capabilities parameter 5: count, then one byte per period
		for _, n := range []int{0, 1, c / 2, c - 1, c, c + 3} {
			if n < 0 {
				continue
			}
			wire := []byte{1, 5, 2, byte(c)}
			for i := 0; i < n; i++ {
				wire = append(wire, byte(i*7+c))
			}
			cmd := dcmi.NewGetDCMICapabilitiesInfoEnhancedSystemPowerStatisticsAttrsCmd()
			err, pan := decode(cmd.Response().(gopacket.DecodingLayer), wire)
			ev.Eval()
			switch {
			case pan != nil:
				fail("DCMI enhanced power statistics attributes", c, n, fmt.Sprintf("decoder panicked: %v", pan))
			case n < c && err == nil:
				fail("DCMI enhanced power statistics attributes", c, n, "body shorter than the announced periods decoded without an error")
			case n >= c && err != nil:
				fail("DCMI enhanced power statistics attributes", c, n, "valid body rejected: "+err.Error())
			case n >= c:
				if got := cmd.Rsp.PowerRollingAvgTimePeriods; len(got) != c {
					fail("DCMI enhanced power statistics attributes", c, n, fmt.Sprintf("%d periods decoded", len(got)))
				} else {
					for i := range got {
						if want := time.Duration(ref.RollingAvgSeconds(wire[4+i])) * time.Second; got[i] != want {
							fail("DCMI enhanced power statistics attributes", c, n, fmt.Sprintf("period %d = %v, want %v", i, got[i], want))
						}
					}
				}
			}
		}
		dom.Visit(c)
		// Get DCMI Sensor Info: instances, count, then two bytes per record ID
		for _, n := range []int{0, 1, c, 2*c - 1, 2 * c, 2*c + 2} {
			if n < 0 {
				continue
			}
			wire := []byte{byte(255 - c), byte(c)}
			for i := 0; i < n; i++ {
				wire = append(wire, byte(i*5+c+1))
			}
			rsp := &dcmi.GetDCMISensorInfoRsp{}
			err, pan := decode(rsp, wire)
			ev.Eval()
			switch {
			case pan != nil:
				fail("Get DCMI Sensor Info", c, n, fmt.Sprintf("decoder panicked: %v", pan))
			case n < 2*c && err == nil:
				fail("Get DCMI Sensor Info", c, n, "body shorter than the announced record IDs decoded without an error")
			case n >= 2*c && err != nil:
				fail("Get DCMI Sensor Info", c, n, "valid body rejected: "+err.Error())
			case n >= 2*c:
				if len(rsp.RecordIDs) != c || rsp.Instances != byte(255-c) {
					fail("Get DCMI Sensor Info", c, n, fmt.Sprintf("%d record IDs, %d instances decoded", len(rsp.RecordIDs), rsp.Instances))
				}
				for i, id := range rsp.RecordIDs {
					if want := uint16(wire[2+2*i]) | uint16(wire[3+2*i])<<8; uint16(id) != want {
						fail("Get DCMI Sensor Info", c, n, fmt.Sprintf("record ID %d = %#x, want %#x", i, id, want))
					}
				}
			}
		}
		dom.Visit(256 + c)
		// Full Sensor Record: type/length byte c, ID string bytes cut short by 1..3
		enc, chars := byte(c)>>6, c&0x1f
		need := map[byte]int{ref.EncUnicode: chars, ref.EncBCDPlus: (chars + 1) / 2, ref.Enc6Bit: (chars*6 + 7) / 8, ref.Enc8Bit: chars}[enc]
		f := ref.FSR{ID: ref.IDString{Enc: ref.Enc8Bit, Codes: []byte("ab")}}
		body := f.Body()
		body = body[:len(body)-3] // fixed part up to, not including, the type/length byte
		for short := 1; short <= 3 && short <= need; short++ {
			wire := append(append([]byte(nil), body...), byte(c))
			for i := 0; i < need-short; i++ {
				wire = append(wire, byte(0x41+i%26))
			}
			err, pan := decode(&ipmi.FullSensorRecord{}, wire)
			ev.Eval()
			if pan != nil {
				fail("Full Sensor Record ID string", c, need-short, fmt.Sprintf("decoder panicked: %v", pan))
			}
			if err == nil {
				fail("Full Sensor Record ID string", c, need-short, fmt.Sprintf("ID string of %d characters (encoding %d) needs %d bytes; %d present decoded without an error", chars, enc, need, need-short))
			}
		}
		dom.Visit(512 + c)
	}
	ev.Label("sweep:count-fields")
}

// TestDecodersConcurrently: generated records (all ID-string encodings) are decoded
// by several goroutines at once, each into its own layer from its own input; every
// decode must still yield exactly its own record's values.
func TestDecodersConcurrently(t *testing.T) {
	const workers = 8
	rounds := ev.Pick(3000, 60000)
	type job struct {
		f    ref.FSR
		wire []byte
	}
	jobs := make([]job, workers)
	for i := range jobs {
		f := hx.GenFSR().Example(int(ev.Seed)*131 + i)
		// packed encodings with long strings exercise the table-driven decoders
		f.ID.Enc = []byte{ref.Enc6Bit, ref.EncBCDPlus, ref.Enc6Bit, ref.Enc8Bit}[i%4]
		n := 9 + i*3
		if f.ID.Enc == ref.Enc8Bit && n > 16 {
			n = 16
		}
		f.ID.Codes = make([]byte, n)
		for k := range f.ID.Codes {
			switch f.ID.Enc {
			case ref.EncBCDPlus:
				f.ID.Codes[k] = byte((k + i) % 10)
			case ref.Enc6Bit:
				f.ID.Codes[k] = byte((k*5 + i*7) % 64)
			default:
				f.ID.Codes[k] = byte(0x41 + (k+i)%26)
			}
		}
		jobs[i] = job{f, f.Body()}
	}
	var wg sync.WaitGroup
	errs := make([]error, workers)
	start := make(chan struct{})
	for i := range jobs {
		wg.Add(1)
		go func(i int) {
			defer wg.Done()
			<-start
			l := &ipmi.FullSensorRecord{}
			in := exact(jobs[i].wire)
			for r := 0; r < rounds && errs[i] == nil; r++ {
				if err := l.DecodeFromBytes(in, gopacket.NilDecodeFeedback); err != nil {
					errs[i] = fmt.Errorf("worker %d round %d: %v", i, r, err)
					return
				}
				if err := hx.CmpFSR(&jobs[i].f, l); err != nil {
					errs[i] = fmt.Errorf("worker %d round %d (while %d other goroutines decode other records): %v", i, r, workers-1, err)
					return
				}
			}
		}(i)
	}
	close(start)
	wg.Wait()
	for i := 0; i < workers*rounds; i += rounds {
		ev.Eval()
	}
	for _, err := range errs {
		if err != nil {
			ev.Violation("TestDecodersConcurrently", map[string]any{"workers": workers, "rounds": rounds}, err.Error())
			t.Fatalf("%v", err)
		}
	}
	ev.Label("decode:concurrent-goroutines")
}

func TestCoverage(t *testing.T) {
	ev.RequireLabels(t, 1, "reject:checksum", "reject:covered-byte", "reject:length-field", "decode:GetSessionInfoRsp/3", "decode:GetSessionInfoRsp/6", "decode:GetSessionInfoRsp/18",
		"decode:FullSensorRecord/enc0", "decode:FullSensorRecord/enc1", "decode:FullSensorRecord/enc2", "decode:FullSensorRecord/enc3", "decode:RAKPMessage2/status0=true",
		"decode:DCMICaps/param2/v1.0", "decode:DCMICaps/param2/v1.5", "api:sensor-info:shorter-page-after-longer", "api:value-survives-next-command", "api-reject:mode0", "api-reject:mode1", "api-reject:mode2", "sweep:checksums", "short-messages", "sweep:count-fields", "decode:concurrent-goroutines")
	_ = context.Background
}
