// C16: paged enumerations are complete, ordered and terminate.
package c16

import (
	"context"
	"fmt"
	"testing"

	"github.com/gebn/bmc"
	"github.com/gebn/bmc/pkg/dcmi"
	"github.com/gebn/bmc/pkg/ipmi"
	"pgregory.net/rapid"

	"verif/harness/evid"
	"verif/harness/hx"
	"verif/harness/ref"
	"verif/harness/simbmc"
)

var ev *evid.E

func TestMain(m *testing.M) {
	ev = evid.New("C16", "exploration",
		"cipher suites: generated lists of 0..20 standard/OEM records with 0..3 integrity and 0..3 confidentiality algorithms each, total encodings forced over every length 0..80 "+
			"including exact multiples of 16 (the BMC then serves a final empty chunk), plus malformed lists (record cut short at the end, first byte not C0/C1, algorithm bytes out of "+
			"order); oracle: result == reference expansion (one entry per integrity x confidentiality combination, None when absent, in order, with ID and enterprise), error and nil for "+
			"malformed data, <= 65 requests. DCMI sensor info: exhaustive instance count 0..255 x page size 1..8 for {standard IDs answer, empty, error} x DCMI IDs; oracle: lists equal "+
			"the BMC's record IDs in order without duplicates, InstanceStart is 1, 1+p, ..., DCMI entity IDs queried iff the standard ones gave no IDs or an error, request count "+
			"bounded. Non-trivial = >= 2 chunks / >= 2 pages; distinct by case")
	ev.Assume("BMCs whose instance total changes between pages are out of scope")
	evid.Main(m, ev)
}

func genRecord(t *rapid.T, i int) ref.SuiteRecord {
	r := ref.SuiteRecord{OEM: rapid.Bool().Draw(t, "oem"), ID: byte(rapid.IntRange(0, 255).Draw(t, "id")), Auth: byte(rapid.IntRange(0, 0x3f).Draw(t, "auth"))}
	if r.OEM {
		r.IANA = rapid.Uint32Range(0, 0xFFFFFF).Draw(t, "iana")
	}
	ni, nc := rapid.IntRange(0, 3).Draw(t, "nInteg"), rapid.IntRange(0, 3).Draw(t, "nConf")
	for k := 0; k < ni; k++ {
		r.Integs = append(r.Integs, byte(rapid.IntRange(0, 0x3f).Draw(t, "integ")))
	}
	for k := 0; k < nc; k++ {
		r.Confs = append(r.Confs, byte(rapid.IntRange(0, 0x3f).Draw(t, "conf")))
	}
	return r
}

func TestCipherSuites(t *testing.T) {
	ev.Check(t, "TestCipherSuites", ev.PickN(3000, 500000), func(t *rapid.T) {
		w := hx.NewWorld(rapid.Uint64().Draw(t, "seed"), true)
		target := rapid.IntRange(0, 80).Draw(t, "targetLength")
		var recs []ref.SuiteRecord
		var wire []byte
		for len(recs) < 20 {
			r := genRecord(t, len(recs))
			// steer the total towards the target length, so exact multiples of 16 are hit
			if rest := target - len(wire); rest < 3 {
				break
			} else if rest < len(r.Bytes()) {
				r.OEM, r.IANA = false, 0
				r.Integs, r.Confs = nil, nil
				for len(r.Bytes()) < rest {
					if len(r.Integs) < 3 {
						r.Integs = append(r.Integs, byte(len(wire))&0x3f)
					} else if len(r.Confs) < 3 {
						r.Confs = append(r.Confs, byte(rest)&0x3f)
					} else {
						break
					}
				}
			}
			recs = append(recs, r)
			wire = append(wire, r.Bytes()...)
		}
		malformed := ""
		switch rapid.IntRange(0, 5).Draw(t, "malform") {
		case 0:
			if len(wire) > 0 {
				// cut the last record below its minimum
				last := recs[len(recs)-1]
				min := 3
				if last.OEM {
					min = 6
				}
				cut := rapid.IntRange(1, min-1).Draw(t, "cut")
				wire = append(wire[:len(wire)-len(last.Bytes())], last.Bytes()[:cut]...)
				malformed = "last record cut short"
			}
		case 1:
			if len(wire) > 0 {
				wire[0] = rapid.SampledFrom([]byte{0x00, 0x40, 0x80, 0xC2, 0xFF, 0x01}).Draw(t, "badStart")
				malformed = "first byte is not a record start"
			}
		case 2:
			// an authentication byte with the wrong tag bits
			if len(recs) > 0 && !recs[0].OEM {
				wire[2] |= 0x40
				malformed = "authentication algorithm byte has tag bits set"
			}
		}
		if rapid.Bool().Draw(t, "earlierDiscovery") {
			// the connection has already enumerated another (here: longer or
			// shorter, possibly failed) list; this enumeration starts afresh
			var earlier []byte
			for i := rapid.IntRange(1, 14).Draw(t, "earlierRecords"); i > 0; i-- {
				earlier = append(earlier, (&ref.SuiteRecord{ID: byte(i), Auth: 1, Integs: []byte{1}, Confs: []byte{1}}).Bytes()...)
			}
			if rapid.IntRange(0, 3).Draw(t, "earlierMalformed") == 0 {
				earlier = earlier[:len(earlier)-2]
			}
			w.BMC.SuiteRecords = earlier
			ctx0, cancel0 := w.Ctx(200)
			bmc.RetrieveSupportedCipherSuites(ctx0, w.T)
			cancel0()
			w.BMC.Log, w.BMC.Data.CipherReqs = w.BMC.Log[:0], 0
			ev.Label("cs:second-enumeration-on-the-connection")
		}
		w.BMC.SuiteRecords = wire
		ctx, cancel := w.Ctx(200)
		defer cancel()
		got, err := bmc.RetrieveSupportedCipherSuites(ctx, w.T)
		ev.Eval()
		chunks := w.BMC.Data.CipherReqs
		if chunks > 65 {
			t.Fatalf("%d requests for %d bytes of records", chunks, len(wire))
		}
		wantChunks := len(wire)/16 + 1
		if chunks != wantChunks {
			t.Fatalf("%d requests for %d bytes of record data, want %d (16 bytes per chunk, a short chunk ends the list)", chunks, len(wire), wantChunks)
		}
		for i, rx := range w.BMC.Log {
			if rx.Req == nil || rx.Req.Fields["index"] != uint64(i) || rx.Req.Fields["listAlgs"] != 1 || rx.Req.Fields["channel"] != 0x0E || rx.Req.Fields["payloadType"] != 0 {
				t.Fatalf("request %d: %+v", i, rx.Req)
			}
		}
		if malformed != "" {
			if err == nil || got != nil {
				t.Fatalf("malformed data (%s, % x): got %d records and err=%v, want an error and no partial list", malformed, wire, len(got), err)
			}
			ev.Label("cs:malformed:" + malformed)
			return
		}
		if err != nil {
			t.Fatalf("well-formed list % x: %v", wire, err)
		}
		var want []ref.ExpandedSuite
		for _, r := range recs {
			want = append(want, r.Expand()...)
		}
		if len(got) != len(want) {
			t.Fatalf("%d entries returned, reference expansion has %d; records %+v", len(got), len(want), recs)
		}
		for i, g := range got {
			e := want[i]
			if byte(g.CipherSuiteID) != e.ID || uint32(g.Enterprise) != e.IANA || byte(g.AuthenticationAlgorithm) != e.Auth || byte(g.IntegrityAlgorithm) != e.Integ || byte(g.ConfidentialityAlgorithm) != e.Conf {
				t.Fatalf("entry %d: got %+v, want %+v", i, g, e)
			}
		}
		ev.Label(fmt.Sprintf("cs:chunks=%d", chunks))
		if len(wire)%16 == 0 && len(wire) > 0 {
			ev.Label("cs:exact-multiple-of-16")
		}
		if chunks >= 2 {
			ev.NonTrivial(fmt.Sprintf("cs|%x", wire))
		}
		ev.Sample(map[string]any{"part": "cipher suites", "bytes": len(wire), "records": len(recs), "entries": len(want), "requests": chunks})
	})
}

// TestCipherSuiteWalkBounded: a BMC with more record data than 64 list indexes can
// address (or one that answers every index with a full chunk) must not keep the
// walk going: the 6-bit list index bounds it to 65 requests.
func TestCipherSuiteWalkBounded(t *testing.T) {
	for _, size := range []int{1024, 1025, 1040, 1100, 2000} {
		for _, repeat := range []bool{false, true} {
			w := hx.NewWorld(uint64(ev.Seed)+uint64(size), true)
			data := make([]byte, 0, size)
			for len(data) < size {
				data = append(data, (&ref.SuiteRecord{ID: byte(len(data)), Auth: 1, Integs: []byte{1}, Confs: []byte{1}}).Bytes()...)
			}
			w.BMC.SuiteRecords = data[:size]
			if repeat {
				// ignores the list index: always the first 16 bytes
				w.BMC.Handlers[uint16(ref.NetFnApp)<<8|ref.CmdGetCipherSuites] = func(b *simbmc.BMC, rx *simbmc.Rx) (byte, []byte) {
					b.Data.CipherReqs++
					return 0, append([]byte{1}, data[:16]...)
				}
			}
			ctx, cancel := w.Ctx(400)
			_, _ = bmc.RetrieveSupportedCipherSuites(ctx, w.T)
			cancel()
			ev.Eval()
			if n := w.BMC.Data.CipherReqs; n > 65 {
				ev.Violation("TestCipherSuiteWalkBounded", map[string]any{"recordBytes": size, "ignoresIndex": repeat}, fmt.Sprintf("%d Get Channel Cipher Suites requests: the walk is not bounded by the 6-bit list index", n))
				t.Fatalf("record data %d bytes, repeat=%v: %d requests", size, repeat, n)
			}
			ev.NonTrivial(fmt.Sprintf("bounded|%d|%v", size, repeat))
		}
	}
	ev.Label("cs:walk-bounded")
}

// --- DCMI sensor enumeration ------------------------------------------------

var stdEntities = []byte{0x37, 0x03, 0x07}  // air inlet, processor, system board
var dcmiEntities = []byte{0x40, 0x41, 0x42} // DCMI air inlet, processor, baseboard

// ids returns n distinct record IDs. Record IDs are opaque: the order the BMC
// reports them in need not be numeric, so styles 1 and 2 report them
// descending and scrambled (multiplication by an odd constant is a bijection
// on 16 bits, so they stay distinct).
func ids(base, n, style int) []uint16 {
	out := make([]uint16, n)
	for i := range out {
		v := uint16(base + i*3)
		switch style % 3 {
		case 1:
			v = uint16(base + (n-1-i)*3)
		case 2:
			v = v*0x9E37 + 0x1234
		}
		out[i] = v
	}
	return out
}

func eq(got []ipmi.RecordID, want []uint16) bool {
	if len(got) != len(want) {
		return false
	}
	for i := range got {
		if uint16(got[i]) != want[i] {
			return false
		}
	}
	return true
}

func TestDCMIGrid(t *testing.T) {
	c := hx.Creds{User: "admin", Password: []byte("pw"), Priv: 4, Suite: hx.Suites9()[int(ev.Seed)%9], Seed: uint64(ev.Seed) + 3}
	w := hx.NewWorldFor(c, true)
	sess, err := w.T.NewV2Session(context.Background(), c.Opts())
	if err != nil {
		t.Fatalf("harness: %v", err)
	}
	dom := ev.Domain("dcmi: count x page x mode", 256*8*3)
	for mode := 0; mode < 3; mode++ { // 0: standard IDs answer, 1: standard empty, 2: standard error
		for n := 0; n <= 255; n++ {
			for page := 1; page <= 8; page++ {
				// the three entities get n, n/2 and 1 instances to vary page alignments
				counts := []int{n, n / 2, (n + page) % 5}
				b := w.BMC
				b.Data.DCMIIDs, b.Data.DCMIErr, b.Data.DCMIReqs, b.Data.DCMIPage = map[byte][]uint16{}, map[byte]byte{}, nil, page
				var wantStd, wantDCMI [3][]uint16
				for e := 0; e < 3; e++ {
					wantDCMI[e] = ids(0x4000+e*0x100, counts[(e+1)%3], n+page+e)
					b.Data.DCMIIDs[dcmiEntities[e]] = wantDCMI[e]
					switch mode {
					case 0:
						wantStd[e] = ids(0x100+e*0x1000, counts[e], n+page+e+1)
						b.Data.DCMIIDs[stdEntities[e]] = wantStd[e]
					case 2:
						if e == n%3 {
							b.Data.DCMIErr[stdEntities[e]] = 0xCC
						} else {
							b.Data.DCMIIDs[stdEntities[e]] = ids(0x100, counts[e], 0)
						}
					}
				}
				b.Log = b.Log[:0]
				w.Net.Sent, w.Net.Delivered = nil, nil
				ctx, cancel := w.Ctx(2000)
				info, err := dcmi.GetSensorInfo(ctx, sess)
				cancel()
				ev.Eval()
				dom.Visit((n*8+page-1)*3 + mode)
				cs := map[string]any{"mode": mode, "instances": counts, "page": page}
				fail := func(msg string) {
					ev.Violation("TestDCMIGrid", cs, msg)
					t.Fatalf("%v: %s", cs, msg)
				}
				if err != nil {
					fail("GetSensorInfo failed: " + err.Error())
				}
				stdTotal := 0
				for e := 0; e < 3; e++ {
					stdTotal += len(wantStd[e])
				}
				useStd := mode == 0 && stdTotal > 0
				want := wantDCMI
				if useStd {
					want = wantStd
				}
				if !eq(info.Inlet, want[0]) || !eq(info.CPU, want[1]) || !eq(info.Baseboard, want[2]) {
					fail(fmt.Sprintf("returned inlet %v cpu %v baseboard %v; the BMC reports %v %v %v (standard entity IDs used: %v)", info.Inlet, info.CPU, info.Baseboard, want[0], want[1], want[2], useStd))
				}
				// request log: InstanceStart sequence and fallback rule
				dcmiQueried := false
				perEntity := map[byte][]byte{}
				for _, r := range b.Data.DCMIReqs {
					if r.Type != 0x01 || r.Instance != 0 {
						fail(fmt.Sprintf("request with sensor type %#x instance %d", r.Type, r.Instance))
					}
					perEntity[r.Entity] = append(perEntity[r.Entity], r.Start)
					if r.Entity >= 0x40 {
						dcmiQueried = true
					}
				}
				if dcmiQueried == useStd {
					fail(fmt.Sprintf("DCMI entity IDs queried=%v although the standard ones yielded %d record IDs (mode %d)", dcmiQueried, stdTotal, mode))
				}
				for ent, starts := range perEntity {
					total := len(b.Data.DCMIIDs[ent])
					if _, bad := b.Data.DCMIErr[ent]; bad {
						continue
					}
					maxReq := (total+page-1)/page + 1
					if len(starts) > maxReq {
						fail(fmt.Sprintf("entity %#x: %d requests for %d instances with page size %d", ent, len(starts), total, page))
					}
					for i, s := range starts {
						if int(s) != 1+i*page {
							fail(fmt.Sprintf("entity %#x: InstanceStart sequence %v, want 1, 1+p, ...", ent, starts))
						}
					}
				}
				pages := 0
				for _, s := range perEntity {
					if len(s) > pages {
						pages = len(s)
					}
				}
				if len(want[0]) >= 2 && want[0][0] > want[0][1] {
					ev.Label("dcmi:record-ids-not-ascending")
				}
				if pages >= 2 {
					ev.Label(fmt.Sprintf("dcmi:multi-page:mode%d", mode))
				}
				if (n*8+page+mode)%997 == 0 {
					ev.Sample(cs)
				}
			}
		}
	}
	ev.Label("dcmi-grid-complete")
}

// TestDCMIBounded: a BMC whose instance count and pages do not add up (it claims
// instances and returns none, or keeps claiming more than it has handed out)
// cannot keep the enumeration going: it ends after a bounded number of requests.
func TestDCMIBounded(t *testing.T) {
	c := hx.Creds{User: "admin", Password: []byte("pw"), Priv: 4, Suite: hx.Suites9()[int(ev.Seed+3)%9], Seed: uint64(ev.Seed) + 5}
	w := hx.NewWorldFor(c, true)
	sess, err := w.T.NewV2Session(context.Background(), c.Opts())
	if err != nil {
		t.Fatalf("harness: %v", err)
	}
	for _, claimed := range []int{1, 7, 8, 9, 200, 255} {
		for _, perPage := range []int{0, 1, 3, 8} {
			reqs := 0
			w.BMC.Handlers[uint16(ref.NetFnGroup)<<8|ref.CmdDCMISensorInfo] = func(b *simbmc.BMC, rx *simbmc.Rx) (byte, []byte) {
				reqs++
				body := []byte{byte(claimed), byte(perPage)}
				for i := 0; i < perPage; i++ {
					body = append(body, byte(reqs), byte(i))
				}
				return 0, body
			}
			ctx, cancel := w.Ctx(4000)
			dcmi.GetSensorInfo(ctx, sess)
			cancel()
			ev.Eval()
			// three entities, two entity-ID families, at most 255 record IDs each
			if reqs > 6*256 {
				ev.Violation("TestDCMIBounded", map[string]any{"claimedInstances": claimed, "recordIDsPerResponse": perPage}, fmt.Sprintf("%d Get DCMI Sensor Info requests: the enumeration is not bounded", reqs))
				t.Fatalf("claimed %d, %d per response: %d requests", claimed, perPage, reqs)
			}
			ev.NonTrivial(fmt.Sprintf("dcmi-bounded|%d|%d", claimed, perPage))
		}
	}
	ev.Label("dcmi:bounded")
}

func TestCoverage(t *testing.T) {
	need := []string{"cs:second-enumeration-on-the-connection", "cs:walk-bounded", "dcmi-grid-complete", "dcmi:bounded", "dcmi:record-ids-not-ascending", "dcmi:multi-page:mode0", "dcmi:multi-page:mode1", "dcmi:multi-page:mode2", "cs:exact-multiple-of-16", "cs:chunks=1", "cs:chunks=2", "cs:chunks=3", "cs:chunks=5",
		"cs:malformed:last record cut short", "cs:malformed:first byte is not a record start"}
	ev.RequireLabels(t, 1, need...)
}
