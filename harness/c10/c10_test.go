// C10: retries re-send the same well-formed request until a final answer arrives.
package c10

import (
	"bytes"
	"context"
	"fmt"
	"sort"
	"sync"
	"testing"
	"time"

	"github.com/cenkalti/backoff/v4"
	"github.com/gebn/bmc"

	"github.com/gebn/bmc/pkg/ipmi"
	"github.com/google/gopacket"
	"pgregory.net/rapid"

	"verif/harness/evid"
	"verif/harness/hx"
	"verif/harness/memnet"
	"verif/harness/ref"
	"verif/harness/simbmc"
	"verif/harness/udpnet"
)

var ev *evid.E

func TestMain(m *testing.M) {
	ev = evid.New("C10", "fault_enumeration",
		"per-attempt outcome scripts over {final code 0, final non-zero code, final with truncated body, node busy 0xC0, timeout 0xC3, garbage, bad signature (in-session), lost reply}: "+
			"every prefix of non-terminal outcomes up to the stated depth followed by every terminal outcome or by context expiry, for a session-less command, an in-session command and "+
			"each handshake payload; the real library's transmission count, return values and every transmitted datagram are compared with a reference model of the documented "+
			"Connection.SendCommand contract; a hook-free variant over real UDP with the real clock and back-off drops the first 1-2 replies of a session-less command and of each handshake payload. Non-trivial = at least one retransmission; distinct by (mode, command, script)")
	ev.Assume("context expiry is produced by cancelling the context inside the last scripted transmission; the in-memory transport then refuses further sends like an expired write deadline",
		"wall-clock spacing of retries is not modelled")
	evid.Main(m, ev)
}

type conn interface {
	SendCommand(context.Context, ipmi.Command) (ipmi.CompletionCode, error)
}

var cmdNames = []string{"GetDeviceID", "GetSensorReading", "ChassisControl", "GetChannelAuthenticationCapabilities", "GetSDR", "DCMIGetPowerReading"}

func prepare(e hx.Entry, b *simbmc.BMC, draw int) *hx.Call {
	var call *hx.Call
	g := rapid.Custom(func(t *rapid.T) int { call = e.Prepare(t, b); return 0 })
	g.Example(draw)
	return call
}

// runCommand executes one scripted SendCommand and compares with the model.
func runCommand(suite ref.Suite, inSession bool, cmdName string, script []hx.Outcome, seed uint64, draw int) string {
	return runCommandCC(suite, inSession, cmdName, script, seed, draw, hx.FinalCCValue)
}

// runCommandCC is runCommand with the completion code of final-cc replies chosen.
func runCommandCC(suite ref.Suite, inSession bool, cmdName string, script []hx.Outcome, seed uint64, draw int, finalCode byte) string {
	c := hx.Creds{User: "admin", Password: []byte("pw"), Priv: 4, Suite: suite, Seed: seed}
	w := hx.NewWorldFor(c, true)
	var cn conn = w.T
	var bs *simbmc.Session
	if inSession {
		s, err := w.T.NewV2Session(context.Background(), c.Opts())
		if err != nil {
			return "harness: session failed: " + err.Error()
		}
		cn, bs = s, w.BMC.ActiveSession()
	}
	return runOn(w, cn, bs, inSession, cmdName, script, draw, finalCode)
}

// runOn runs one command with a scripted outcome sequence on an existing
// connection or session and compares it with the model.
func runOn(w *hx.World, cn conn, bs *simbmc.Session, inSession bool, cmdName string, script []hx.Outcome, draw int, finalCode byte) string {
	call := prepare(hx.CatalogueEntry(cmdName), w.BMC, draw)
	sc := &hx.Scripter{Script: script, FinalCode: finalCode}
	sc.Install(w.BMC)
	start := w.Net.Sends
	terminal := false
	for _, o := range script {
		if o.IsFinalReply() || (o == hx.Lost && inSession) {
			terminal = true
		}
	}
	cancelAt := len(script)
	if terminal {
		cancelAt = len(script) + 4 // must never be reached
	}
	ctx, cancel := w.Ctx(cancelAt)
	defer cancel()
	var code ipmi.CompletionCode
	var err error
	done := make(chan struct{})
	go func() {
		defer close(done)
		code, err = cn.SendCommand(ctx, call.Cmd)
	}()
	select {
	case <-done:
	case <-time.After(30 * time.Second):
		// nothing here waits on a clock (in-memory transport, zero back-off): a call
		// still running now, with its context long cancelled, will never return
		return fmt.Sprintf("inSession=%v %s %s: the call had not returned 30 s after its context was cancelled (context error: %v)", inSession, call.Name, hx.ScriptString(script), ctx.Err())
	}
	sends := w.Net.Sends - start
	ev.Eval()
	exp := hx.Model(script, inSession, call.HasBody)
	if exp.HasCode && exp.Code == hx.FinalCCValue {
		exp.Code = finalCode
	}
	where := fmt.Sprintf("inSession=%v %s %s (final code %#x)", inSession, call.Name, hx.ScriptString(script), finalCode)
	if sends != exp.Transmissions {
		return fmt.Sprintf("%s: %d transmissions, the documented contract gives %d (err=%v)", where, sends, exp.Transmissions, err)
	}
	if (err == nil) != exp.ErrNil {
		return fmt.Sprintf("%s: err=%v, the contract says error-free=%v", where, err, exp.ErrNil)
	}
	if exp.HasCode && byte(code) != exp.Code {
		return fmt.Sprintf("%s: completion code %#x returned, the first valid non-temporary reply carried %#x", where, byte(code), exp.Code)
	}
	if exp.Value && err == nil {
		if cerr := call.Check(); cerr != nil {
			return fmt.Sprintf("%s: returned value differs from the BMC's: %v", where, cerr)
		}
	}
	// every transmission is a complete, correctly addressed encoding of the same command
	if len(sc.Received) != sends {
		return fmt.Sprintf("%s: BMC received %d datagrams for %d transmissions", where, len(sc.Received), sends)
	}
	for i, rx := range sc.Received {
		if len(rx.Problems) > 0 {
			return fmt.Sprintf("%s: transmission %d (% x) is not well-formed: %v", where, i+1, rx.Raw, rx.Problems)
		}
		if rx.Req == nil || rx.ReqErr != nil || rx.Req.Key() != call.Key || rx.Msg.RsLUN != call.WantLUN {
			return fmt.Sprintf("%s: transmission %d is not the caller's command: %+v (%v)", where, i+1, rx.Req, rx.ReqErr)
		}
		for k, v := range call.WantFields {
			if rx.Req.Fields[k] != v {
				return fmt.Sprintf("%s: transmission %d field %s=%d, want %d", where, i+1, k, rx.Req.Fields[k], v)
			}
		}
		if inSession && (rx.Sess != bs || !rx.AuthOK) {
			return fmt.Sprintf("%s: transmission %d not addressed to / authenticated for the BMC's session", where, i+1)
		}
		if !inSession && (rx.Pkt.SessionID != 0 || rx.Pkt.Seq != 0) {
			return fmt.Sprintf("%s: session-less transmission %d carries session ID %#x / sequence %d", where, i+1, rx.Pkt.SessionID, rx.Pkt.Seq)
		}
	}
	if sends >= 2 {
		ev.NonTrivial(where)
		ev.Label(fmt.Sprintf("retried:inSession=%v", inSession))
	}
	ev.Label(fmt.Sprintf("mode:inSession=%v", inSession))
	ev.Sample(map[string]any{"mode": map[bool]string{true: "in-session", false: "session-less"}[inSession], "command": call.Name, "script": hx.ScriptString(script),
		"transmissions": sends, "error": fmt.Sprint(err), "code": byte(code)})
	return ""
}

func scripts(nonTerminal, terminal []hx.Outcome, depth int) [][]hx.Outcome {
	var out [][]hx.Outcome
	for l := 0; l <= depth; l++ {
		for _, pre := range hx.EnumScripts(nonTerminal, l) {
			for _, tm := range terminal {
				out = append(out, append(append([]hx.Outcome(nil), pre...), tm))
			}
			if l > 0 {
				out = append(out, pre) // ends in context expiry
			}
		}
	}
	return out
}

func TestEnumeratedCommands(t *testing.T) {
	depth := ev.Pick(3, 5)
	suites := hx.Suites9()
	n := 0
	for _, inSession := range []bool{false, true} {
		nonT := []hx.Outcome{hx.Busy, hx.TimeoutCC, hx.Garbage, hx.Lost}
		term := []hx.Outcome{hx.Final, hx.FinalCC, hx.FinalTruncated}
		if inSession {
			nonT = []hx.Outcome{hx.Busy, hx.TimeoutCC, hx.Garbage, hx.BadSig}
			term = append(term, hx.Lost)
		}
		for ci, cmd := range cmdNames {
			if !ev.Thorough() && ci >= 3 {
				continue
			}
			for _, sc := range scripts(nonT, term, depth) {
				n++
				suite := suites[(n+int(ev.Seed))%len(suites)]
				if msg := runCommand(suite, inSession, cmd, sc, uint64(ev.Seed)*7919+uint64(n), n+int(ev.Seed)); msg != "" {
					ev.Violation("TestEnumeratedCommands", map[string]any{"inSession": inSession, "command": cmd, "script": hx.ScriptString(sc), "suite": suite.String(), "n": n}, msg)
					t.Fatalf("%s", msg)
				}
			}
		}
	}
	ev.Label("enumeration-complete")
}

// TestEveryFinalCode: every completion code other than the two temporary ones
// (0xC0, 0xC3) ends the retries and is returned, alone and after temporary codes.
func TestEveryFinalCode(t *testing.T) {
	suites := hx.Suites12()
	dom := ev.Domain("final completion code (1..255 except 0xC0, 0xC3) x session-less/in-session", 253*2)
	n := 0
	for _, inSession := range []bool{false, true} {
		for cc := 1; cc <= 255; cc++ {
			if cc == 0xC0 || cc == 0xC3 {
				continue
			}
			n++
			script := [][]hx.Outcome{{hx.FinalCC}, {hx.Busy, hx.FinalCC}, {hx.TimeoutCC, hx.Busy, hx.FinalCC}}[(cc+int(ev.Seed))%3]
			cmd := cmdNames[(cc+n)%len(cmdNames)]
			if msg := runCommandCC(suites[(n+int(ev.Seed))%len(suites)], inSession, cmd, script, uint64(ev.Seed)*31337+uint64(n), n+int(ev.Seed), byte(cc)); msg != "" {
				ev.Violation("TestEveryFinalCode", map[string]any{"inSession": inSession, "command": cmd, "script": hx.ScriptString(script), "code": cc}, msg)
				t.Fatalf("%s", msg)
			}
			dom.Visit(n - 1)
		}
	}
	ev.Label("every-final-code")
}

func TestRandomCommands(t *testing.T) {
	// besides the property's own alphabet, well-formed replies to other commands
	// (ordinary, group-extension and OEM network functions) and packets of other
	// kinds: none of them is a response to this command, so the command is re-sent
	all := []hx.Outcome{hx.Final, hx.FinalCC, hx.FinalTruncated, hx.Busy, hx.TimeoutCC, hx.Garbage, hx.BadSig, hx.Lost, hx.StrayOK, hx.StrayBusy, hx.StraySetup, hx.StrayASF}
	ev.Check(t, "TestRandomCommands", ev.PickN(1500, 600000), func(t *rapid.T) {
		inSession := rapid.Bool().Draw(t, "inSession")
		n := rapid.IntRange(1, 12).Draw(t, "len")
		sc := make([]hx.Outcome, n)
		for i := range sc {
			// mostly non-terminal outcomes so that long retry chains occur
			if rapid.IntRange(0, 5).Draw(t, "terminalHere") == 0 {
				sc[i] = rapid.SampledFrom(all[:3]).Draw(t, "o")
			} else {
				sc[i] = rapid.SampledFrom(all[3:]).Draw(t, "o")
			}
			if !inSession && sc[i] == hx.BadSig {
				sc[i] = hx.Garbage
			}
		}
		cmd := rapid.SampledFrom(cmdNames).Draw(t, "command")
		suite := rapid.SampledFrom(hx.Suites12()).Draw(t, "suite")
		if msg := runCommand(suite, inSession, cmd, sc, rapid.Uint64().Draw(t, "seed"), rapid.IntRange(0, 1<<20).Draw(t, "draw")); msg != "" {
			t.Fatalf("%s", msg)
		}
	})
}

// failingReq is a request layer that cannot be serialised.
type failingReq struct{}

func (failingReq) LayerType() gopacket.LayerType { return gopacket.LayerTypePayload }
func (failingReq) SerializeTo(gopacket.SerializeBuffer, gopacket.SerializeOptions) error {
	return fmt.Errorf("this request cannot be serialised")
}

type unserialisable struct{ ipmi.GetDeviceIDCmd }

func (*unserialisable) Request() gopacket.SerializableLayer { return failingReq{} }

// TestUnserialisableRequest: a command whose request cannot be put on the wire
// (Set Session Privilege Level = Callback, which the request layer refuses, and
// a caller-defined command whose request layer returns an error) is not sent and
// is not a success: the call returns an error without any transmission, inside
// and outside a session, and the connection keeps working afterwards.
func TestUnserialisableRequest(t *testing.T) {
	for i, suite := range hx.Suites12() {
		c := hx.Creds{User: "admin", Password: []byte("pw"), Priv: 4, Suite: suite, Seed: uint64(ev.Seed)*19 + uint64(i)}
		w := hx.NewWorldFor(c, true)
		s, err := w.T.NewV2Session(context.Background(), c.Opts())
		if err != nil {
			t.Fatalf("harness: %v", err)
		}
		for _, inSession := range []bool{true, false} {
			for _, cmd := range []ipmi.Command{&ipmi.SetSessionPrivilegeLevelCmd{Req: ipmi.SetSessionPrivilegeLevelReq{PrivilegeLevel: ipmi.PrivilegeLevelCallback}}, &unserialisable{}} {
				var cn conn = w.T
				if inSession {
					cn = s
				}
				before := w.Net.Sends
				ctx, cancel := w.Ctx(3)
				code, err := cn.SendCommand(ctx, cmd)
				cancel()
				ev.Eval()
				cs := map[string]any{"inSession": inSession, "command": cmd.Name(), "suite": suite.String()}
				if err == nil {
					msg := fmt.Sprintf("SendCommand returned code %#x and a nil error for a request that cannot be serialised (%d transmissions)", uint8(code), w.Net.Sends-before)
					ev.Violation("TestUnserialisableRequest", cs, msg)
					t.Fatalf("%v: %s", cs, msg)
				}
				if w.Net.Sends != before {
					msg := fmt.Sprintf("%d datagrams were transmitted for a request that cannot be serialised", w.Net.Sends-before)
					ev.Violation("TestUnserialisableRequest", cs, msg)
					t.Fatalf("%v: %s", cs, msg)
				}
				// and the next command is unaffected
				if msg := runOn(w, cn, map[bool]*simbmc.Session{true: w.BMC.ActiveSession()}[inSession], inSession, "GetDeviceID", []hx.Outcome{hx.Busy, hx.Final}, i, hx.FinalCCValue); msg != "" {
					ev.Violation("TestUnserialisableRequest", cs, "the command after it: "+msg)
					t.Fatalf("%v: the command after it: %s", cs, msg)
				}
				w.BMC.Intercept = nil
				ev.NonTrivial(fmt.Sprintf("unserialisable|%v|%s|%v", inSession, cmd.Name(), suite))
			}
		}
	}
	ev.Label("unserialisable-request")
}

// TestRetryBudgetPerCommand: the connection's back-off policy has a budget (the
// library's own gives up after 15 minutes of retrying; here: after three
// retries) that is counted per command: every command, handshake payload and
// in-session command that is answered with three temporary codes / lost replies
// and then normally must succeed, however many commands came before it.
func TestRetryBudgetPerCommand(t *testing.T) {
	for i, suite := range hx.Suites9() {
		c := hx.Creds{User: "admin", Password: []byte("pw"), Priv: 4, Suite: suite, Seed: uint64(ev.Seed)*23 + uint64(i)}
		w := hx.NewWorldBackOff(c.Seed, true, backoff.WithMaxRetries(&backoff.ZeroBackOff{}, 3))
		c.Install(w.BMC)
		// every first three transmissions of a payload / command are not answered usefully
		seen := map[string]int{}
		w.BMC.Intercept = func(b *simbmc.BMC, rx *simbmc.Rx) {
			if rx.Pkt == nil || len(rx.Replies) == 0 {
				return
			}
			k := fmt.Sprintf("%d/%d", rx.Pkt.PayloadType, len(w.BMC.Log))
			if rx.Msg != nil {
				k = fmt.Sprintf("ipmi/%x/%x/%d", rx.Msg.NetFn, rx.Msg.Cmd, seenCmd)
			} else {
				k = fmt.Sprintf("payload/%d/%d", rx.Pkt.PayloadType, seenCmd)
			}
			seen[k]++
			if seen[k] <= 3 {
				if rx.Msg != nil && !rx.Msg.IsResponse() {
					var s *simbmc.Session
					if rx.Pkt.SessionID != 0 {
						s = rx.Sess
					}
					rx.Replies = []memnet.Out{b.Wrap(s, b.ResponseFor(rx.Msg, 0xC0, nil).Bytes())}
				} else {
					rx.Replies = nil // a lost reply to a session-setup payload
				}
			}
		}
		step := func(name string, f func(ctx context.Context) error) {
			seenCmd++
			before := w.Net.Sends
			err := f(context.Background())
			ev.Eval()
			if err != nil {
				msg := fmt.Sprintf("%s (step %d on this connection) failed after %d transmissions although the fourth transmission of each request was answered normally: %v", name, seenCmd, w.Net.Sends-before, err)
				ev.Violation("TestRetryBudgetPerCommand", map[string]any{"suite": suite.String(), "step": name}, msg)
				t.Fatalf("%s", msg)
			}
			ev.NonTrivial(fmt.Sprintf("budget|%v|%s", suite, name))
		}
		var sess *bmc.V2Session
		step("Get System GUID", func(ctx context.Context) error { _, err := w.T.GetSystemGUID(ctx); return err })
		step("Get Channel Authentication Capabilities", func(ctx context.Context) error {
			_, err := w.T.GetChannelAuthenticationCapabilities(ctx, &ipmi.GetChannelAuthenticationCapabilitiesReq{ExtendedData: true, Channel: ipmi.ChannelPresentInterface, MaxPrivilegeLevel: ipmi.PrivilegeLevelAdministrator})
			return err
		})
		step("session handshake", func(ctx context.Context) error {
			var err error
			sess, err = w.T.NewV2Session(ctx, c.Opts())
			return err
		})
		for k := 0; k < 3; k++ {
			step(fmt.Sprintf("in-session Get Device ID #%d", k+1), func(ctx context.Context) error { _, err := sess.GetDeviceID(ctx); return err })
			step(fmt.Sprintf("session-less Get System GUID #%d", k+2), func(ctx context.Context) error { _, err := w.T.GetSystemGUID(ctx); return err })
		}
		// (Close Session is left out: the simulated BMC closes the session when it
		// handles the first transmission, whatever reply the harness substitutes)
	}
	ev.Label("retry-budget-per-command")
}

var seenCmd int

// TestLongConnection: 200 commands one after the other on one connection and its
// session (more than any 6-bit or 7-bit counter on the way holds), each with a
// short outcome script and each held against the contract.
func TestLongConnection(t *testing.T) {
	c := hx.Creds{User: "admin", Password: []byte("pw"), Priv: 4, Suite: hx.Suites12()[int(ev.Seed)%12], Seed: uint64(ev.Seed)*37 + 3}
	w := hx.NewWorldFor(c, true)
	s, err := w.T.NewV2Session(context.Background(), c.Opts())
	if err != nil {
		t.Fatalf("harness: session failed: %v", err)
	}
	bs := w.BMC.ActiveSession()
	scripts := [][]hx.Outcome{{hx.Final}, {hx.Busy, hx.Final}, {hx.FinalCC}, {hx.Garbage, hx.TimeoutCC, hx.Final}, {hx.Final}}
	for i := 1; i <= 200; i++ {
		inSession := i%3 != 0
		var cn conn = w.T
		var sess *simbmc.Session
		if inSession {
			cn, sess = s, bs
		}
		cmd := cmdNames[i%len(cmdNames)]
		if msg := runOn(w, cn, sess, inSession, cmd, scripts[i%len(scripts)], i, hx.FinalCCValue); msg != "" {
			msg = fmt.Sprintf("command %d on this connection: %s", i, msg)
			ev.Violation("TestLongConnection", map[string]any{"n": i, "command": cmd, "inSession": inSession}, msg)
			t.Fatalf("%s", msg)
		}
		w.BMC.Intercept = nil
	}
	ev.Label("long-connection")
}

// TestCommandSequences: several commands one after the other on the same
// connection and the same session, each with its own outcome script; each is
// held against the contract on its own, whatever the earlier ones ended with
// (a lost reply inside the session, a refusal, a run of retries).
func TestCommandSequences(t *testing.T) {
	all := []hx.Outcome{hx.Final, hx.FinalCC, hx.FinalTruncated, hx.Lost, hx.Busy, hx.TimeoutCC, hx.Garbage, hx.BadSig, hx.StrayOK, hx.StrayASF}
	ev.Check(t, "TestCommandSequences", ev.PickN(500, 100000), func(t *rapid.T) {
		c := hx.Creds{User: "admin", Password: []byte("pw"), Priv: 4, Suite: rapid.SampledFrom(hx.Suites12()).Draw(t, "suite"), Seed: rapid.Uint64().Draw(t, "seed")}
		w := hx.NewWorldFor(c, true)
		s, err := w.T.NewV2Session(context.Background(), c.Opts())
		if err != nil {
			t.Fatalf("harness: session failed: %v", err)
		}
		bs := w.BMC.ActiveSession()
		n := rapid.IntRange(2, 6).Draw(t, "commands")
		failedBefore := false
		var hist []string
		for i := 0; i < n; i++ {
			inSession := rapid.IntRange(0, 3).Draw(t, "inSession") > 0
			var sc []hx.Outcome
			for len(sc) < 4 {
				o := rapid.SampledFrom(all).Draw(t, "o")
				if !inSession && o == hx.BadSig {
					o = hx.Garbage
				}
				sc = append(sc, o)
				if o.IsFinalReply() || (o == hx.Lost && inSession) {
					break
				}
			}
			cmd := rapid.SampledFrom(cmdNames).Draw(t, "command")
			hist = append(hist, fmt.Sprintf("%s%s", cmd, hx.ScriptString(sc)))
			var cn conn = w.T
			var sess *simbmc.Session
			if inSession {
				cn, sess = s, bs
			}
			if msg := runOn(w, cn, sess, inSession, cmd, sc, rapid.IntRange(0, 1<<20).Draw(t, "draw"), hx.FinalCCValue); msg != "" {
				t.Fatalf("command %d of the history %v: %s", i+1, hist, msg)
			}
			w.BMC.Intercept = nil
			if failedBefore && inSession {
				ev.Label("sequence:in-session-command-after-a-transport-failure")
			}
			if inSession && sc[len(sc)-1] == hx.Lost {
				failedBefore = true
			}
		}
	})
}

// ---------------------------------------------------------------------------
// handshake payloads

type hsOutcome int

const (
	hsOK hsOutcome = iota
	hsGarbage
	hsLost
	hsShort  // valid wrapper, payload cut below its minimum: final error
	hsStatus // non-OK status: final error
	hsOther  // a well-formed RMCP message that is not an RMCP+ session packet (ASF pong, RMCP ACK): not a reply, re-send
)

var hsNames = map[hsOutcome]string{hsOK: "ok", hsGarbage: "garbage", hsLost: "lost", hsShort: "short-payload", hsStatus: "status-error", hsOther: "asf-or-ack"}

func hsString(s []hsOutcome) string {
	out := "["
	for i, o := range s {
		if i > 0 {
			out += ","
		}
		out += hsNames[o]
	}
	return out + "]"
}

func runHandshake(suite ref.Suite, step uint8, script []hsOutcome, seed uint64) string {
	c := hx.Creds{User: "admin", Password: []byte("pw"), Priv: 4, Suite: suite, Seed: seed}
	w := hx.NewWorldFor(c, true)
	pos := 0
	var seen [][]byte
	w.BMC.Intercept = func(b *simbmc.BMC, rx *simbmc.Rx) {
		if rx.Pkt == nil || rx.Pkt.PayloadType != step {
			return
		}
		seen = append(seen, rx.Raw)
		o := hsOK
		if pos < len(script) {
			o = script[pos]
		}
		pos++
		switch o {
		case hsGarbage:
			rx.Replies = []memnet.Out{{Data: append([]byte{6, 0, 0xff, 7, 6, 0}, b.Rand.Bytes(7)...)}}
		case hsLost:
			rx.Replies = nil
		case hsOther:
			if pos%2 == 0 {
				rx.Replies = []memnet.Out{{Data: []byte{0x06, 0x00, 0xff, 0x06, 0x00, 0x00, 0x11, 0xbe, 0x40, 0x00, 0x00, 0x10, 0x00, 0x00, 0x11, 0xbe, 0x00, 0x00, 0x00, 0x00, 0x81, 0x00, 0x00, 0x00, 0x00, 0x00, 0x00, 0x00}}}
			} else {
				rx.Replies = []memnet.Out{{Data: []byte{0x06, 0x00, 0x2a, 0x87}}}
			}
		case hsShort:
			if len(rx.Replies) > 0 {
				d := append([]byte(nil), rx.Replies[0].Data[:16+4]...)
				d[14], d[15] = 4, 0
				rx.Replies = []memnet.Out{{Data: d}}
			}
		case hsStatus:
			if len(rx.Replies) > 0 {
				d := append([]byte(nil), rx.Replies[0].Data[:16+8]...)
				d[14], d[15] = 8, 0
				d[17] = 0x12 // illegal or unsupported parameter
				rx.Replies = []memnet.Out{{Data: d}}
			}
		}
	}
	terminal := false
	for _, o := range script {
		if o == hsOK || o == hsShort || o == hsStatus {
			terminal = true
		}
	}
	before := map[uint8]int{ref.PTOpenReq: 0, ref.PTRAKP1: 1, ref.PTRAKP3: 2}[step]
	cancelAt := before + len(script)
	if terminal {
		cancelAt += 10
	}
	ctx, cancel := w.Ctx(cancelAt)
	defer cancel()
	s, err := w.T.NewV2Session(ctx, c.Opts())
	ev.Eval()
	// model
	wantStep, wantOK := len(script), false
	for i, o := range script {
		if o == hsOK {
			wantStep, wantOK = i+1, true
			break
		}
		if o == hsShort || o == hsStatus {
			wantStep = i + 1
			break
		}
	}
	where := fmt.Sprintf("handshake step %#x script %s", step, hsString(script))
	if len(seen) != wantStep {
		return fmt.Sprintf("%s: %d transmissions of the payload, the contract gives %d (err=%v)", where, len(seen), wantStep, err)
	}
	if wantOK != (err == nil) || (s != nil) != wantOK {
		return fmt.Sprintf("%s: session=%v err=%v, want success=%v", where, s != nil, err, wantOK)
	}
	wantTotal := before + wantStep
	if wantOK {
		wantTotal += 2 - before
	}
	if w.Net.Sends != wantTotal {
		return fmt.Sprintf("%s: %d datagrams in total, want %d", where, w.Net.Sends, wantTotal)
	}
	for i := 1; i < len(seen); i++ {
		if !bytes.Equal(seen[i], seen[0]) {
			return fmt.Sprintf("%s: retransmission %d differs from the first transmission:\n% x\n% x", where, i, seen[i], seen[0])
		}
	}
	if p := w.BMC.AllProblems(); len(p) > 0 {
		return fmt.Sprintf("%s: BMC reports malformed datagrams: %v", where, p)
	}
	if len(seen) >= 2 {
		ev.NonTrivial(where)
		ev.Label("retried:handshake")
	}
	ev.Label("mode:handshake")
	ev.Sample(map[string]any{"mode": "handshake", "payloadType": step, "script": hsString(script), "transmissions": len(seen), "error": fmt.Sprint(err)})
	return ""
}

func TestEnumeratedHandshake(t *testing.T) {
	depth := ev.Pick(3, 5)
	suites := hx.Suites9()
	n := 0
	var all [][]hsOutcome
	var rec func(pre []hsOutcome)
	rec = func(pre []hsOutcome) {
		for _, tm := range []hsOutcome{hsOK, hsShort, hsStatus} {
			all = append(all, append(append([]hsOutcome(nil), pre...), tm))
		}
		if len(pre) > 0 {
			all = append(all, append([]hsOutcome(nil), pre...))
		}
		if len(pre) == depth {
			return
		}
		for _, nt := range []hsOutcome{hsGarbage, hsLost, hsOther} {
			rec(append(append([]hsOutcome(nil), pre...), nt))
		}
	}
	rec(nil)
	for _, step := range []uint8{ref.PTOpenReq, ref.PTRAKP1, ref.PTRAKP3} {
		for _, sc := range all {
			n++
			if msg := runHandshake(suites[(n+int(ev.Seed))%len(suites)], step, sc, uint64(ev.Seed)*31+uint64(n)); msg != "" {
				ev.Violation("TestEnumeratedHandshake", map[string]any{"step": step, "script": hsString(sc), "n": n}, msg)
				t.Fatalf("%s", msg)
			}
		}
	}
	ev.Label("handshake-enumeration-complete")
}

// TestUDPLostThenAnswered runs over real UDP with the real clock and back-off: a
// request whose first k replies are lost (k full per-attempt timeouts pass) must
// still be re-sent, unchanged, and the answer to the retransmission returned.
func TestUDPLostThenAnswered(t *testing.T) {
	type ucase struct {
		step uint8 // payload type whose replies are dropped, 0 = a session-less command
		k    int
		busy bool // the first k transmissions are answered "node busy" instead of being lost
	}
	var cases []ucase
	for _, st := range []uint8{0, ref.PTOpenReq, ref.PTRAKP1, ref.PTRAKP3} {
		for _, k := range []int{1, 2} {
			cases = append(cases, ucase{st, k, false})
		}
	}
	// a long run of temporary codes under the library's own exponential back-off
	// (the sleeps add up to 5-16 s for six replies, 12-37 s for eight): the command
	// must still be re-sent until the final answer comes
	cases = append(cases, ucase{0, ev.Pick(6, 8), true})
	var wg sync.WaitGroup
	var mu sync.Mutex
	var firstMsg string
	for i, c := range cases {
		i, c := i, c
		wg.Add(1)
		go func() {
			defer wg.Done()
			run := func() string {
				cr := hx.Creds{User: "admin", Password: []byte("pw"), Priv: 4, Suite: hx.Suites9()[(i+int(ev.Seed))%9], Seed: uint64(ev.Seed)*13 + uint64(i)}
				b := simbmc.New(cr.Seed)
				cr.Install(b)
				srv, err := udpnet.Listen(b)
				if err != nil {
					return ""
				}
				defer srv.Close()
				var seen [][]byte
				dropped := 0
				srv.Arm(func(rx *simbmc.Rx) []udpnet.Reply {
					match := rx.Pkt != nil && ((c.step == 0 && rx.Pkt.PayloadType == ref.PTIPMI) || (c.step != 0 && rx.Pkt.PayloadType == c.step))
					if match {
						seen = append(seen, rx.Raw)
						if dropped < c.k {
							dropped++
							if c.busy && rx.Msg != nil {
								return []udpnet.Reply{{Data: b.Wrap(nil, b.ResponseFor(rx.Msg, 0xC0, nil).Bytes()).Data}}
							}
							return nil
						}
					}
					var out []udpnet.Reply
					for _, o := range rx.Replies {
						out = append(out, udpnet.Reply{Data: o.Data})
					}
					return out
				})
				tr, err := bmc.DialV2(srv.Addr(), bmc.WithTimeout(80*time.Millisecond))
				if err != nil {
					return ""
				}
				defer tr.Close()
				ctx, cancel := context.WithTimeout(context.Background(), 120*time.Second)
				defer cancel()
				if c.step == 0 {
					_, err = tr.GetSystemGUID(ctx)
				} else {
					_, err = tr.NewV2Session(ctx, cr.Opts())
				}
				srv.Lock()
				defer srv.Unlock()
				where := fmt.Sprintf("UDP, replies to the first %d transmissions of payload type %#x lost", c.k, c.step)
				if c.busy {
					where = fmt.Sprintf("UDP, the first %d transmissions answered with node busy", c.k)
				}
				if err != nil {
					return fmt.Sprintf("%s: call failed although the BMC answered transmission %d: %v (BMC saw %d transmissions)", where, c.k+1, err, len(seen))
				}
				if len(seen) != c.k+1 {
					return fmt.Sprintf("%s: BMC saw %d transmissions, want %d", where, len(seen), c.k+1)
				}
				for j := 1; j < len(seen); j++ {
					if !bytes.Equal(seen[j], seen[0]) {
						return fmt.Sprintf("%s: retransmission %d differs from the first transmission", where, j)
					}
				}
				if p := b.AllProblems(); len(p) > 0 {
					return fmt.Sprintf("%s: malformed datagrams: %v", where, p)
				}
				return ""
			}
			// the oracle counts datagrams against the real clock: a mismatch has to
			// repeat in three runs in a row before it counts (a stalled machine does not
			// stall the same way three times; a defect does)
			msg := ""
			for try := 0; try < 3; try++ {
				if msg = run(); msg == "" {
					break
				}
			}
			mu.Lock()
			defer mu.Unlock()
			ev.Eval()
			ev.NonTrivial(fmt.Sprintf("udp|%d|%d", c.step, c.k))
			ev.Label("retried:udp")
			if msg != "" && firstMsg == "" {
				firstMsg = msg
				ev.Violation("TestUDPLostThenAnswered", map[string]any{"payloadType": c.step, "lost": c.k}, msg)
			}
		}()
	}
	wg.Wait()
	if firstMsg != "" {
		t.Fatalf("%s", firstMsg)
	}
	ev.Sample(map[string]any{"mode": "udp", "cases": len(cases)})
}

// TestUDPUndecodableThenAnswered: over the real UDP transport, the first
// transmission of a command is answered with a datagram that cannot be decoded
// (empty, 1 or 3 bytes, a bare RMCP header, random bytes), the second one
// normally. Outside and inside a session the command must be sent again and
// return the final answer after exactly two transmissions.
func TestUDPUndecodableThenAnswered(t *testing.T) {
	garbage := map[string][]byte{"empty": {}, "1-byte": {0x06}, "3-bytes": {0x06, 0x00, 0xff}, "bare-rmcp-header": {0x06, 0x00, 0xff, 0x07},
		"random-20": {0x9c, 0x01, 0x55, 0xaa, 0x06, 0x00, 0xff, 0x07, 0x06, 0xc0, 1, 2, 3, 4, 5, 6, 7, 8, 9, 10}}
	var names []string
	for n := range garbage {
		names = append(names, n)
	}
	sort.Strings(names)
	var wg sync.WaitGroup
	var mu sync.Mutex
	var firstMsg string
	i := 0
	for _, inSession := range []bool{false, true} {
		for _, name := range names {
			i++
			i, inSession, name := i, inSession, name
			wg.Add(1)
			go func() {
				defer wg.Done()
				run := func() string {
					cr := hx.Creds{User: "admin", Password: []byte("pw"), Priv: 4, Suite: hx.Suites12()[(i+int(ev.Seed))%12], Seed: uint64(ev.Seed)*17 + uint64(i)}
					b := simbmc.New(cr.Seed)
					cr.Install(b)
					srv, err := udpnet.Listen(b)
					if err != nil {
						return ""
					}
					defer srv.Close()
					tr, err := bmc.DialV2(srv.Addr(), bmc.WithTimeout(400*time.Millisecond))
					if err != nil {
						return ""
					}
					defer tr.Close()
					ctx, cancel := context.WithTimeout(context.Background(), 30*time.Second)
					defer cancel()
					var sess *bmc.V2Session
					if inSession {
						if sess, err = tr.NewV2Session(ctx, cr.Opts()); err != nil {
							return ""
						}
					}
					seen := 0
					srv.Arm(func(rx *simbmc.Rx) []udpnet.Reply {
						seen++
						if seen == 1 {
							return []udpnet.Reply{{Data: garbage[name]}}
						}
						var out []udpnet.Reply
						for _, o := range rx.Replies {
							out = append(out, udpnet.Reply{Data: o.Data})
						}
						return out
					})
					var code ipmi.CompletionCode
					cmd := &ipmi.GetDeviceIDCmd{}
					if inSession {
						code, err = sess.SendCommand(ctx, cmd)
					} else {
						code, err = tr.SendCommand(ctx, cmd)
					}
					srv.Lock()
					defer srv.Unlock()
					where := fmt.Sprintf("UDP, inSession=%v, first transmission answered with an undecodable datagram (%s), second normally", inSession, name)
					if err != nil || code != ipmi.CompletionCodeNormal {
						return fmt.Sprintf("%s: code %#x err %v after %d transmissions; the contract says re-send and return the final answer", where, uint8(code), err, seen)
					}
					if seen != 2 {
						return fmt.Sprintf("%s: BMC saw %d transmissions, want 2", where, seen)
					}
					if cmd.Rsp.ID != b.Data.DeviceID.ID || uint32(cmd.Rsp.Manufacturer) != uint32(b.Data.DeviceID.IANA) {
						return fmt.Sprintf("%s: returned value is not the BMC's: %+v", where, cmd.Rsp)
					}
					if p := b.AllProblems(); len(p) > 0 {
						return fmt.Sprintf("%s: malformed datagrams: %v", where, p)
					}
					return ""
				}
				// the oracle counts datagrams against the real clock: a mismatch has to
				// repeat in three runs in a row before it counts (a stalled machine does not
				// stall the same way three times; a defect does)
				msg := ""
				for try := 0; try < 3; try++ {
					if msg = run(); msg == "" {
						break
					}
				}
				mu.Lock()
				defer mu.Unlock()
				ev.Eval()
				ev.NonTrivial(fmt.Sprintf("udp-garbage|%v|%s", inSession, name))
				ev.Label("retried:udp-undecodable")
				if msg != "" && firstMsg == "" {
					firstMsg = msg
					ev.Violation("TestUDPUndecodableThenAnswered", map[string]any{"inSession": inSession, "garbage": name}, msg)
				}
			}()
		}
	}
	wg.Wait()
	if firstMsg != "" {
		t.Fatalf("%s", firstMsg)
	}
}

// TestUDPInSessionLostReply: over the real UDP transport and clock, an in-session
// command whose reply never arrives ends with an error after exactly one
// transmission (inside a session a transport failure is final), many times over so
// that the read deadline and the attempt's context race in both orders.
func TestUDPInSessionLostReply(t *testing.T) {
	conns, calls := ev.Pick(4, 8), ev.Pick(12, 60)
	var wg sync.WaitGroup
	var mu sync.Mutex
	var firstMsg string
	for i := 0; i < conns; i++ {
		i := i
		wg.Add(1)
		go func() {
			defer wg.Done()
			run := func() string {
				cr := hx.Creds{User: "admin", Password: []byte("pw"), Priv: 4, Suite: hx.Suites12()[(i+int(ev.Seed))%12], Seed: uint64(ev.Seed)*17 + uint64(i)}
				b := simbmc.New(cr.Seed)
				cr.Install(b)
				srv, err := udpnet.Listen(b)
				if err != nil {
					return ""
				}
				defer srv.Close()
				tr, err := bmc.DialV2(srv.Addr(), bmc.WithTimeout(time.Duration(15+5*i)*time.Millisecond))
				if err != nil {
					return ""
				}
				defer tr.Close()
				ctx, cancel := context.WithTimeout(context.Background(), 20*time.Second)
				defer cancel()
				sess, err := tr.NewV2Session(ctx, cr.Opts())
				if err != nil {
					return "" // loopback hiccup during set-up: not what is being checked
				}
				inSession := 0
				srv.Arm(func(rx *simbmc.Rx) []udpnet.Reply {
					if rx.Pkt != nil && rx.Pkt.SessionID != 0 {
						inSession++
						return nil // every in-session reply is lost
					}
					var out []udpnet.Reply
					for _, o := range rx.Replies {
						out = append(out, udpnet.Reply{Data: o.Data})
					}
					return out
				})
				for k := 0; k < calls; k++ {
					_, err := sess.GetDeviceID(ctx)
					mu.Lock()
					ev.Eval()
					mu.Unlock()
					if err == nil {
						return fmt.Sprintf("UDP, in-session call %d: success although every reply was lost", k+1)
					}
				}
				// every call must have put exactly one datagram on the wire; the total is
				// compared (not per call) so that a server goroutine lagging behind on a
				// busy machine cannot shift a datagram into the next call's window
				deadline := time.Now().Add(2 * time.Second)
				for {
					srv.Lock()
					n := inSession
					srv.Unlock()
					if n > calls {
						return fmt.Sprintf("UDP: %d in-session calls whose replies were all lost put %d datagrams on the wire, want one each (a transport failure inside a session is final)", calls, n)
					}
					if n == calls && time.Now().After(deadline.Add(-1900*time.Millisecond)) || time.Now().After(deadline) {
						break
					}
					time.Sleep(5 * time.Millisecond)
				}
				return ""
			}
			// the oracle counts datagrams against the real clock: a mismatch has to
			// repeat in three runs in a row before it counts (a stalled machine does not
			// stall the same way three times; a defect does)
			msg := ""
			for try := 0; try < 1; try++ { // no reply ever comes here, so a stalled machine cannot add datagrams: one run decides
				if msg = run(); msg == "" {
					break
				}
			}
			mu.Lock()
			defer mu.Unlock()
			ev.NonTrivial(fmt.Sprintf("udp-insession-lost|%d", i))
			ev.Label("udp:in-session-lost-reply")
			if msg != "" && firstMsg == "" {
				firstMsg = msg
				ev.Violation("TestUDPInSessionLostReply", map[string]any{"connection": i}, msg)
			}
		}()
	}
	wg.Wait()
	if firstMsg != "" {
		t.Fatalf("%s", firstMsg)
	}
}

func TestCoverage(t *testing.T) {
	ev.RequireLabels(t, 1, "sequence:in-session-command-after-a-transport-failure", "unserialisable-request", "retry-budget-per-command", "long-connection")
	ev.RequireLabels(t, 1, "enumeration-complete", "every-final-code", "handshake-enumeration-complete", "retried:inSession=true", "retried:inSession=false", "retried:handshake", "retried:udp", "retried:udp-undecodable", "udp:in-session-lost-reply")
}
