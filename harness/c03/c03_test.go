// C03: every packet sent in a session is authenticated, encrypted and well-formed.
package c03

import (
	"bytes"
	"context"
	"fmt"
	"sync"
	"testing"

	"github.com/gebn/bmc/pkg/iana"
	"github.com/gebn/bmc/pkg/ipmi"
	"pgregory.net/rapid"

	"verif/harness/evid"
	"verif/harness/hx"
	"verif/harness/ref"
	"verif/harness/simbmc"
)

var ev *evid.E

func TestMain(m *testing.M) {
	ev = evid.New("C03", "exploration",
		"histories of 1..30 commands on a session for each of the 9 suites plus the three integrity-None/AES suites (authenticated flag clear, datagram ends with the payload): every library command with generated field values plus a harness-defined ipmi.Command (the library's "+
			"extension point) with an arbitrary request NetFn (standard, group-extension, OEM) and a 0..200-byte body; a low rate of busy/garbage/bad-signature outcomes adds "+
			"retransmissions. Every datagram is verified at the BMC from raw bytes with the BMC's own keys: RMCP header, flags, session ID, length field, 0xFF integrity pad and pad-length "+
			"byte, next-header, AuthCode over auth-type..next-header, AES-CBC under K2[0:16] with minimal 01,02.. pad, both checksums, addresses, and the decrypted message equals the "+
			"command of this call; IVs pairwise distinct per session and per run. Non-trivial = >= 2 datagrams with >= 2 different length residues; distinct by (suite, command/body sequence)")
	ev.Assume("IV freshness is 'no repeat observed'", "trusts package ref for the wire format (DESIGN appendix A)")
	evid.Main(m, ev)
}

var (
	ivMu  sync.Mutex
	ivSet = map[[16]byte]struct{}{}
)

type expect struct {
	name   string
	key    uint16
	lun    byte
	fields map[string]uint64
	raw    bool
	netfn  byte
	cmd    byte
	data   []byte // full message data for raw commands (prefix + body)
}

func TestHistories(t *testing.T) {
	cat := hx.Catalogue()
	ev.Check(t, "TestHistories", ev.PickN(1500, 200000), func(t *rapid.T) {
		suite := rapid.SampledFrom(hx.Suites12()).Draw(t, "suite")
		c := hx.Creds{User: rapid.SampledFrom([]string{"", "admin", "0123456789abcdef"}).Draw(t, "user"), Password: []byte("pw"), Priv: 4, Suite: suite, Seed: rapid.Uint64().Draw(t, "seed")}
		w := hx.NewWorldFor(c, true)
		sess, err := w.T.NewV2Session(context.Background(), c.Opts())
		if err != nil {
			t.Fatalf("harness: session: %v", err)
		}
		bs := w.BMC.ActiveSession()
		w.BMC.Fallback = func(b *simbmc.BMC, rx *simbmc.Rx) (byte, []byte) { return 0, []byte{0xAB, 0xCD} }
		sc := &hx.Scripter{}
		sc.Install(w.BMC)
		n := rapid.IntRange(1, 30).Draw(t, "commands")
		sessionIVs := map[[16]byte]int{}
		resid4, resid16 := map[int]bool{}, map[int]bool{}
		datagrams := 0
		var desc []string
		for i := 0; i < n; i++ {
			var ex expect
			var cmd ipmi.Command
			if rapid.IntRange(0, 1).Draw(t, "custom") == 0 {
				op := ipmi.Operation{}
				switch rapid.IntRange(0, 3).Draw(t, "netfnClass") {
				case 0:
					op.Function = ipmi.NetworkFunctionGroupReq
					op.Body = ipmi.BodyCode(rapid.Byte().Draw(t, "bodyCode"))
				case 1:
					op.Function = ipmi.NetworkFunctionOEMReq
					op.Enterprise = iana.Enterprise(rapid.Uint32Range(0, 0xFFFFFF).Draw(t, "enterprise"))
				default:
					// every even NetFn that is neither the group extension (0x2C) nor
					// OEM/group (0x2E): 0x00..0x2A and the controller-specific 0x30..0x3E
					nf := rapid.IntRange(0, 29).Draw(t, "netfn")
					if nf >= 22 {
						nf += 2
					}
					op.Function = ipmi.NetworkFunction(2 * nf)
					if nf >= 24 {
						ev.Label("custom-netfn-0x30-0x3e")
					}
				}
				op.Command = ipmi.CommandNumber(rapid.IntRange(0xE0, 0xFF).Draw(t, "cmd"))
				lun := byte(rapid.IntRange(0, 3).Draw(t, "lun"))
				// body lengths spread evenly over 0..200: whether a serialise buffer
				// has to grow depends on each length relative to the earlier ones
				bl := int(rapid.Uint16().Draw(t, "bodyLen")) % 201
				body := rapid.SliceOfN(rapid.Byte(), bl, bl).Draw(t, "body")
				cmd, _ = hx.RawCommand("custom", op, lun, body)
				ex = expect{name: "custom", raw: true, netfn: byte(op.Function), cmd: byte(op.Command), lun: lun}
				switch op.Function {
				case ipmi.NetworkFunctionGroupReq:
					ex.data = append([]byte{byte(op.Body)}, body...)
				case ipmi.NetworkFunctionOEMReq:
					ex.data = append([]byte{byte(op.Enterprise), byte(op.Enterprise >> 8), byte(op.Enterprise >> 16)}, body...)
				default:
					ex.data = body
				}
				desc = append(desc, fmt.Sprintf("custom(netfn %#x, %d bytes)", uint8(op.Function), len(body)))
			} else {
				call := rapid.SampledFrom(cat).Draw(t, "command").Prepare(t, w.BMC)
				sc.Install(w.BMC)
				cmd = call.Cmd
				ex = expect{name: call.Name, key: call.Key, lun: call.WantLUN, fields: call.WantFields}
				desc = append(desc, call.Name)
			}
			// outcome script: mostly a single final reply
			script := []hx.Outcome{hx.Final}
			for rapid.IntRange(0, 6).Draw(t, "fault") == 0 && len(script) < 4 {
				script = append([]hx.Outcome{rapid.SampledFrom([]hx.Outcome{hx.Busy, hx.TimeoutCC, hx.Garbage, hx.BadSig, hx.StrayOK, hx.StraySetup, hx.StrayASF}).Draw(t, "faultKind")}, script...)
			}
			// one command in eight is given up by its caller: every attempt gets a
			// retryable answer and the context ends while the last one is in flight
			abandoned := rapid.IntRange(0, 7).Draw(t, "abandoned") == 0
			budget := len(script) + 2
			if abandoned {
				script = script[:len(script)-1]
				if len(script) == 0 {
					script = []hx.Outcome{hx.Busy, hx.Busy}
				}
				budget = len(script)
				desc[len(desc)-1] += " (abandoned)"
				ev.Label("abandoned-command")
			}
			sc.Script, sc.Pos = script, 0
			before := len(w.BMC.Log)
			ctx, cancel := w.Ctx(budget)
			_, err := sess.SendCommand(ctx, cmd)
			cancel()
			if abandoned && err == nil {
				t.Fatalf("harness: command %d (%s) succeeded although every reply was retryable", i, ex.name)
			}
			if err != nil && !abandoned {
				t.Fatalf("command %d (%s) failed: %v; BMC: %v", i, ex.name, err, w.BMC.AllProblems())
			}
			got := w.BMC.Log[before:]
			if len(got) != len(script) {
				t.Fatalf("command %d (%s): %d datagrams for script %s", i, ex.name, len(got), hx.ScriptString(script))
			}
			for _, rx := range got {
				datagrams++
				if len(rx.Problems) > 0 {
					t.Fatalf("command %d (%s): datagram % x violates the wire format: %v", i, ex.name, rx.Raw, rx.Problems)
				}
				p := rx.Pkt
				if !bytes.Equal(rx.Raw[:4], ref.RMCPHeader) || rx.Raw[4] != 0x06 {
					t.Fatalf("RMCP header / auth type: % x", rx.Raw[:5])
				}
				if p.PayloadType != ref.PTIPMI || !p.Encrypted || p.SessionID != bs.ID || rx.Sess != bs || !rx.AuthOK {
					t.Fatalf("command %d (%s): flags/session ID wrong: %+v", i, ex.name, p)
				}
				if suite.Integ == ref.IntegNone {
					// no integrity algorithm negotiated: the authenticated flag is
					// clear and the datagram ends with the payload (no pad, pad
					// length, next header or AuthCode)
					if p.Authenticated || rx.Raw[5] != 0x80 || len(rx.Raw) != 16+len(p.Payload) || len(p.AuthCode) != 0 {
						t.Fatalf("command %d (%s): suite without integrity: header byte %#x, %d bytes follow the payload (% x)", i, ex.name, rx.Raw[5], len(rx.Raw)-16-len(p.Payload), rx.Raw[16+len(p.Payload):])
					}
				} else {
					if !p.Authenticated || rx.Raw[5] != 0xC0 {
						t.Fatalf("command %d (%s): authenticated flag not set: %+v", i, ex.name, p)
					}
					if len(p.AuthCode) != ref.IntegLen(suite.Integ) || int(p.PadLen) != len(p.PadBytes) || p.PadLen > 3 || p.NextHeader != 7 || len(p.AuthRange)%4 != 0 {
						t.Fatalf("command %d (%s): trailer wrong: pad %x len %d next %#x code %d bytes", i, ex.name, p.PadBytes, p.PadLen, p.NextHeader, len(p.AuthCode))
					}
					if !bytes.Equal(p.AuthCode, ref.IntegSum(suite.Integ, bs.K1, p.AuthRange)) {
						t.Fatalf("command %d (%s): AuthCode is not HMAC_K1 over auth type..next header", i, ex.name)
					}
				}
				if len(p.Payload) < 32 || len(p.Payload)%16 != 0 || rx.Msg == nil || rx.ConfPad != 15-len(rx.Plain)%16 {
					t.Fatalf("command %d (%s): confidentiality layer wrong: payload %d bytes, pad %d, message %d bytes", i, ex.name, len(p.Payload), rx.ConfPad, len(rx.Plain))
				}
				if j, dup := sessionIVs[rx.IV]; dup {
					t.Fatalf("command %d (%s): IV % x already used by datagram %d of this session", i, ex.name, rx.IV, j)
				}
				sessionIVs[rx.IV] = rx.N
				ivMu.Lock()
				_, dup := ivSet[rx.IV]
				ivSet[rx.IV] = struct{}{}
				ivMu.Unlock()
				if dup {
					t.Fatalf("IV % x was already used earlier in this run", rx.IV)
				}
				m := rx.Msg
				if m.RsAddr != 0x20 || m.RqAddr != 0x81 || m.RqLUN != 0 || m.RsLUN != ex.lun {
					t.Fatalf("command %d (%s): addresses/LUNs %#x %#x %d %d", i, ex.name, m.RsAddr, m.RqAddr, m.RqLUN, m.RsLUN)
				}
				if ex.raw {
					if m.NetFn != ex.netfn || m.Cmd != ex.cmd || !bytes.Equal(m.Data, ex.data) {
						t.Fatalf("command %d: message is not the caller's command: NetFn %#x cmd %#x data %x; want %#x %#x %x", i, m.NetFn, m.Cmd, m.Data, ex.netfn, ex.cmd, ex.data)
					}
				} else {
					if rx.Req == nil || rx.ReqErr != nil || rx.Req.Key() != ex.key || len(rx.Req.Fields) != len(ex.fields) {
						t.Fatalf("command %d (%s): decrypted message is not the caller's command: %+v %v", i, ex.name, rx.Req, rx.ReqErr)
					}
					for k, v := range ex.fields {
						if rx.Req.Fields[k] != v {
							t.Fatalf("command %d (%s): field %s=%d want %d", i, ex.name, k, rx.Req.Fields[k], v)
						}
					}
				}
				resid4[(12+len(p.Payload)+2)%4] = true
				resid16[len(rx.Plain)%16] = true
				ev.Label(fmt.Sprintf("msglen%%16=%d", len(rx.Plain)%16))
				ev.Label(fmt.Sprintf("prepad%%4=%d", (12+len(p.Payload)+2)%4))
				if suite.Integ != ref.IntegNone {
					ev.Label(fmt.Sprintf("integrity-pad=%d", p.PadLen))
				}
				ev.Label(fmt.Sprintf("msglen%%4=%d", len(rx.Plain)%4))
			}
		}
		ev.Eval()
		ev.LabelN("datagrams", datagrams)
		ev.Label("suite:" + suite.String())
		if datagrams >= 2 && len(resid16) >= 2 {
			ev.NonTrivial(fmt.Sprintf("%v|%v", suite, desc))
		}
		ev.Sample(map[string]any{"suite": suite.String(), "history": desc, "datagrams": datagrams})
	})
}

func TestCoverage(t *testing.T) {
	var need []string
	for i := 0; i < 16; i++ {
		need = append(need, fmt.Sprintf("msglen%%16=%d", i))
	}
	for _, s := range hx.Suites12() {
		need = append(need, "suite:"+s.String())
	}
	ev.RequireLabels(t, 1, append(need, "custom-netfn-0x30-0x3e", "abandoned-command")...)
}
