// C08: serialise-then-decode is the identity for two-way layers.
package c08

import (
	"bytes"
	"crypto/hmac"
	"crypto/md5"
	"crypto/sha1"
	"crypto/sha256"
	"fmt"
	"hash"
	"testing"

	"github.com/gebn/bmc/pkg/iana"
	"github.com/gebn/bmc/pkg/ipmi"
	"github.com/google/gopacket"
	"pgregory.net/rapid"

	"verif/harness/evid"
	"verif/harness/ref"
)

var ev *evid.E

func TestMain(m *testing.M) {
	ev = evid.New("C08", "exploration",
		"rapid-generated values of V1Session, V2Session (standard/OEM payload types, flags, three HMAC integrity algorithms with generated keys or none), Message (all 64 NetFns), "+
			"AES128CBC (generated key) and RAKPMessage1 with inner payloads of 0..200 bytes; serialise with FixLengths+ComputeChecksums, decode into a fresh value, compare wire "+
			"fields and payload, serialise the decoded value again and compare bytes. Non-trivial = payload length > 0 and at least one non-default field; distinct by layer + field tuple")
	ev.Assume("fields that are not on the wire for a given variant (v1.5 AuthCode with auth type none, OEM fields of non-OEM payload types, completion code of requests) are generated as zero")
	evid.Main(m, ev)
}

var opts = gopacket.SerializeOptions{FixLengths: true, ComputeChecksums: true}

var dirtyFill = gopacket.Payload(bytes.Repeat([]byte{0xFF}, 700))

// ser serialises into a fresh buffer and into a buffer that carried another
// packet before (a SerializeBuffer hands out its old bytes again after Clear:
// the library's connections reuse one buffer for every packet); the bytes must
// not depend on which.
func ser(t *rapid.T, ls ...gopacket.SerializableLayer) []byte {
	buf := gopacket.NewSerializeBuffer()
	if err := gopacket.SerializeLayers(buf, opts, ls...); err != nil {
		t.Fatalf("serialise: %v", err)
	}
	out := append([]byte(nil), buf.Bytes()...)
	used := gopacket.NewSerializeBuffer()
	if err := gopacket.SerializeLayers(used, opts, dirtyFill); err != nil {
		t.Fatalf("harness: %v", err)
	}
	if err := gopacket.SerializeLayers(used, opts, ls...); err != nil {
		t.Fatalf("serialise into a used buffer: %v", err)
	}
	if !bytes.Equal(out, used.Bytes()) {
		t.Fatalf("the serialisation depends on what the buffer held before:\nfresh buffer % x\nused buffer  % x", out, used.Bytes())
	}
	return out
}

// serOnce serialises once, into a fresh or a used buffer (for layers whose
// bytes legitimately differ between two serialisations: the AES layer draws a
// fresh IV each time).
func serOnce(t *rapid.T, usedBuffer bool, ls ...gopacket.SerializableLayer) []byte {
	buf := gopacket.NewSerializeBuffer()
	if usedBuffer {
		if err := gopacket.SerializeLayers(buf, opts, dirtyFill); err != nil {
			t.Fatalf("harness: %v", err)
		}
	}
	if err := gopacket.SerializeLayers(buf, opts, ls...); err != nil {
		t.Fatalf("serialise: %v", err)
	}
	return append([]byte(nil), buf.Bytes()...)
}

// payload generator: 0..200 bytes, biased towards tails of 0xFF (pad scanner)
func genPayload() *rapid.Generator[[]byte] {
	return rapid.Custom(func(t *rapid.T) []byte {
		// lengths spread evenly over 0..200 (rapid's own slice lengths favour short ones)
		n := int(rapid.Uint16().Draw(t, "payloadLen")) % 201
		p := rapid.SliceOfN(rapid.Byte(), n, n).Draw(t, "payload")
		if rapid.IntRange(0, 3).Draw(t, "ffTail") == 0 {
			n := rapid.IntRange(0, 6).Draw(t, "ffs")
			for i := 0; i < n && i < len(p); i++ {
				p[len(p)-1-i] = 0xFF
			}
		}
		return p
	})
}

func exact(b []byte) []byte {
	o := make([]byte, len(b))
	copy(o, b)
	return o[:len(o):len(o)]
}

func TestV1Session(t *testing.T) {
	ev.Check(t, "TestV1Session", ev.PickN(8000, 400000), func(t *rapid.T) {
		// the decoder value is used for two generated values in a row: the second
		// round trip starts from whatever the first left in it
		var d ipmi.V1Session
		for rep := 0; rep < 2; rep++ {
			v := ipmi.V1Session{
				AuthType: ipmi.AuthenticationType(rapid.SampledFrom([]int{0, 1, 2, 4, 5}).Draw(t, "authType")),
				Sequence: rapid.Uint32().Draw(t, "seq"), ID: rapid.Uint32().Draw(t, "id"),
			}
			if v.AuthType != 0 {
				copy(v.AuthCode[:], rapid.SliceOfN(rapid.Byte(), 16, 16).Draw(t, "code"))
			}
			p := genPayload().Draw(t, "p")
			w := ser(t, &v, gopacket.Payload(p))
			if err := d.DecodeFromBytes(exact(w), gopacket.NilDecodeFeedback); err != nil {
				t.Fatalf("decode of own serialisation failed: %v (% x)", err, w)
			}
			ev.Eval()
			if d.AuthType != v.AuthType || d.Sequence != v.Sequence || d.ID != v.ID || d.AuthCode != v.AuthCode || int(d.Length) != len(p) {
				t.Fatalf("fields differ: sent %+v, decoded %+v", fields1(&v), fields1(&d))
			}
			if !bytes.Equal(d.LayerPayload(), p) {
				t.Fatalf("payload differs: % x vs % x", d.LayerPayload(), p)
			}
			if w2 := ser(t, &d, gopacket.Payload(d.LayerPayload())); !bytes.Equal(w, w2) {
				t.Fatalf("re-serialisation differs:\n% x\n% x", w, w2)
			}
			// and against the reference encoding
			rv := ref.V1{AuthType: byte(v.AuthType), Seq: v.Sequence, ID: v.ID, Code: v.AuthCode, Payload: p}
			if !bytes.Equal(rv.Bytes(), w) {
				t.Fatalf("differs from the reference encoding:\n% x\n% x", w, rv.Bytes())
			}
			ev.Label(fmt.Sprintf("v1:auth%d", v.AuthType))
			if len(p) > 0 {
				ev.NonTrivial(fmt.Sprintf("v1|%x", w))
			}
			ev.Sample(map[string]any{"layer": "V1Session", "authType": v.AuthType, "payloadLen": len(p), "wire": fmt.Sprintf("%x", w[:min(len(w), 40)])})
		}
	})
}

func fields1(v *ipmi.V1Session) string {
	return fmt.Sprintf("{auth %v seq %d id %d code %x len %d}", v.AuthType, v.Sequence, v.ID, v.AuthCode, v.Length)
}

func integ(alg int, key []byte) hash.Hash {
	switch alg {
	case 1:
		return trunc{hmac.New(sha1.New, key), 12}
	case 2:
		return hmac.New(md5.New, key)
	case 3:
		return trunc{hmac.New(sha256.New, key), 16}
	}
	return nil
}

type trunc struct {
	hash.Hash
	n int
}

func (t trunc) Sum(b []byte) []byte { return t.Hash.Sum(b)[:len(b)+t.n] }
func (t trunc) Size() int           { return t.n }

func TestV2Session(t *testing.T) {
	ev.Check(t, "TestV2Session", ev.PickN(10000, 600000), func(t *rapid.T) {
		// the decoder value is used for two generated values in a row: the second
		// round trip starts from whatever the first left in it
		var d ipmi.V2Session
		for rep := 0; rep < 2; rep++ {
			v := ipmi.V2Session{
				Encrypted: rapid.Bool().Draw(t, "enc"), Authenticated: rapid.Bool().Draw(t, "auth"),
				ID: rapid.Uint32().Draw(t, "id"), Sequence: rapid.Uint32().Draw(t, "seq"),
			}
			v.PayloadType = ipmi.PayloadType(rapid.OneOf(rapid.SampledFrom([]int{0, 1, 2, 2, 2, 0x10, 0x11, 0x12, 0x13, 0x14, 0x15, 0x20, 0x27}), rapid.IntRange(0, 63)).Draw(t, "payloadType"))
			if v.PayloadType == ipmi.PayloadTypeOEM {
				v.Enterprise = iana.Enterprise(rapid.Uint32().Draw(t, "enterprise"))
				v.PayloadID = rapid.Uint16().Draw(t, "payloadID")
			}
			alg := rapid.IntRange(0, 3).Draw(t, "integrity")
			key := rapid.SliceOfN(rapid.Byte(), 0, 32).Draw(t, "key")
			v.IntegrityAlgorithm = integ(alg, key)
			p := genPayload().Draw(t, "p")
			w := ser(t, &v, gopacket.Payload(p))
			// as in a session, one hash value may serve both directions; and a packet
			// that fails verification may have been received in between
			d.IntegrityAlgorithm = integ(alg, key)
			if rapid.Bool().Draw(t, "sharedHash") {
				d.IntegrityAlgorithm = v.IntegrityAlgorithm
				if v.Authenticated && alg != 0 && rapid.Bool().Draw(t, "rejectedPacketFirst") {
					bad := exact(w)
					bad[len(bad)-1-rapid.IntRange(0, 3).Draw(t, "badByte")] ^= byte(rapid.IntRange(1, 255).Draw(t, "badXor"))
					var junk ipmi.V2Session
					junk.IntegrityAlgorithm = v.IntegrityAlgorithm
					if err := junk.DecodeFromBytes(bad, gopacket.NilDecodeFeedback); err == nil {
						t.Fatalf("packet with a corrupted AuthCode decoded without an error: % x", bad)
					}
					if w2 := ser(t, &v, gopacket.Payload(p)); !bytes.Equal(w, w2) {
						t.Fatalf("serialising the same value again after a rejected packet gives different bytes:\n% x\n% x", w, w2)
					}
					ev.Label("v2:round-trip-after-rejected-packet")
				}
			}
			if err := d.DecodeFromBytes(exact(w), gopacket.NilDecodeFeedback); err != nil {
				t.Fatalf("decode of own serialisation failed: %v (% x)", err, w)
			}
			ev.Eval()
			same := d.Encrypted == v.Encrypted && d.Authenticated == v.Authenticated && d.PayloadType == v.PayloadType && d.Enterprise == v.Enterprise &&
				d.PayloadID == v.PayloadID && d.ID == v.ID && d.Sequence == v.Sequence && int(d.Length) == len(p)
			if v.Authenticated {
				same = same && d.Pad == v.Pad && bytes.Equal(d.Signature, v.Signature)
			}
			if !same {
				t.Fatalf("fields differ: sent %s, decoded %s", fields2(&v), fields2(&d))
			}
			if !bytes.Equal(d.LayerPayload(), p) {
				t.Fatalf("payload differs: % x vs % x", d.LayerPayload(), p)
			}
			if w2 := ser(t, &d, gopacket.Payload(d.LayerPayload())); !bytes.Equal(w, w2) {
				t.Fatalf("re-serialisation differs:\n% x\n% x", w, w2)
			}
			// reference encoding (includes the pad rule and AuthCode range)
			rp := &ref.Packet{Encrypted: v.Encrypted, Authenticated: v.Authenticated, PayloadType: uint8(v.PayloadType), OEMIANA: uint32(v.Enterprise), OEMPayloadID: v.PayloadID,
				SessionID: v.ID, Seq: v.Sequence, Payload: p}
			ri := map[int]uint8{0: 0, 1: ref.IntegSHA1_96, 2: ref.IntegMD5_128, 3: ref.IntegSHA256128}[alg]
			want := ref.BuildPacket(rp, ri, key)[4:]
			if !bytes.Equal(want, w) {
				t.Fatalf("differs from the reference encoding:\n% x\n% x", w, want)
			}
			ev.Label(fmt.Sprintf("v2:integ%d:auth%v", alg, v.Authenticated))
			ev.Label(fmt.Sprintf("v2:len%%4=%d", len(p)%4))
			if v.PayloadType == ipmi.PayloadTypeOEM {
				ev.Label("v2:oem")
			}
			if len(p) > 0 {
				ev.NonTrivial(fmt.Sprintf("v2|%x", w))
			}
			ev.Sample(map[string]any{"layer": "V2Session", "fields": fields2(&v), "payloadLen": len(p)})
		}
	})
}

func fields2(v *ipmi.V2Session) string {
	return fmt.Sprintf("{enc %v auth %v pt %#x ent %d pid %d id %d seq %d len %d pad %d sig %x}", v.Encrypted, v.Authenticated, uint8(v.PayloadType), v.Enterprise, v.PayloadID, v.ID, v.Sequence, v.Length, v.Pad, v.Signature)
}

func TestMessage(t *testing.T) {
	ev.Check(t, "TestMessage", ev.PickN(10000, 600000), func(t *rapid.T) {
		// the decoder value is used for two generated values in a row: the second
		// round trip starts from whatever the first left in it
		var d ipmi.Message
		for rep := 0; rep < 2; rep++ {
			m := ipmi.Message{
				RemoteAddress: ipmi.Address(rapid.Byte().Draw(t, "remote")), RemoteLUN: ipmi.LUN(rapid.IntRange(0, 3).Draw(t, "rlun")),
				LocalAddress: ipmi.Address(rapid.Byte().Draw(t, "local")), LocalLUN: ipmi.LUN(rapid.IntRange(0, 3).Draw(t, "llun")),
				Sequence: uint8(rapid.IntRange(0, 63).Draw(t, "seq")),
			}
			m.Function = ipmi.NetworkFunction(rapid.OneOf(rapid.SampledFrom([]int{0x2c, 0x2d, 0x2e, 0x2f, 6, 7}), rapid.IntRange(0, 63)).Draw(t, "netfn"))
			m.Command = ipmi.CommandNumber(rapid.Byte().Draw(t, "cmd"))
			if !m.Function.IsRequest() {
				m.CompletionCode = ipmi.CompletionCode(rapid.Byte().Draw(t, "cc"))
			}
			switch m.Function {
			case ipmi.NetworkFunctionGroupReq, ipmi.NetworkFunctionGroupRsp:
				m.Body = ipmi.BodyCode(rapid.Byte().Draw(t, "body"))
			case ipmi.NetworkFunctionOEMReq, ipmi.NetworkFunctionOEMRsp:
				m.Enterprise = iana.Enterprise(rapid.Uint32Range(0, 0xFFFFFF).Draw(t, "ent"))
			}
			p := genPayload().Draw(t, "p")
			w := ser(t, &m, gopacket.Payload(p))
			if err := d.DecodeFromBytes(exact(w), gopacket.NilDecodeFeedback); err != nil {
				t.Fatalf("decode of own serialisation failed: %v (% x)", err, w)
			}
			ev.Eval()
			if d.Operation != m.Operation || d.RemoteAddress != m.RemoteAddress || d.RemoteLUN != m.RemoteLUN || d.LocalAddress != m.LocalAddress ||
				d.LocalLUN != m.LocalLUN || d.Sequence != m.Sequence || d.CompletionCode != m.CompletionCode || d.Checksum1 != m.Checksum1 || d.Checksum2 != m.Checksum2 {
				t.Fatalf("fields differ: sent %s, decoded %s", fieldsM(&m), fieldsM(&d))
			}
			if !bytes.Equal(d.LayerPayload(), p) {
				t.Fatalf("payload differs: % x vs % x", d.LayerPayload(), p)
			}
			if w2 := ser(t, &d, gopacket.Payload(d.LayerPayload())); !bytes.Equal(w, w2) {
				t.Fatalf("re-serialisation differs:\n% x\n% x", w, w2)
			}
			rm := &ref.Msg{RsAddr: byte(m.RemoteAddress), NetFn: byte(m.Function), RsLUN: byte(m.RemoteLUN), RqAddr: byte(m.LocalAddress), RqSeq: m.Sequence, RqLUN: byte(m.LocalLUN),
				Cmd: byte(m.Command), CC: byte(m.CompletionCode)}
			switch m.Function {
			case ipmi.NetworkFunctionGroupReq, ipmi.NetworkFunctionGroupRsp:
				rm.Data = append([]byte{byte(m.Body)}, p...)
			case ipmi.NetworkFunctionOEMReq, ipmi.NetworkFunctionOEMRsp:
				rm.Data = append([]byte{byte(m.Enterprise), byte(m.Enterprise >> 8), byte(m.Enterprise >> 16)}, p...)
			default:
				rm.Data = p
			}
			if !bytes.Equal(rm.Bytes(), w) {
				t.Fatalf("differs from the reference encoding:\n% x\n% x", w, rm.Bytes())
			}
			cls := "std"
			if m.Function>>1 == 0x16 {
				cls = "group"
			} else if m.Function>>1 == 0x17 {
				cls = "oem"
			}
			ev.Label(fmt.Sprintf("msg:%s:req%v", cls, m.Function.IsRequest()))
			if len(p) > 0 {
				ev.NonTrivial(fmt.Sprintf("msg|%x", w))
			}
			ev.Sample(map[string]any{"layer": "Message", "fields": fieldsM(&m), "payloadLen": len(p)})
		}
	})
}

func fieldsM(m *ipmi.Message) string {
	return fmt.Sprintf("{fn %#x cmd %#x body %#x ent %d raddr %#x rlun %d laddr %#x llun %d seq %d cc %#x cs %#x %#x}", uint8(m.Function), uint8(m.Command), uint8(m.Body), m.Enterprise,
		uint8(m.RemoteAddress), m.RemoteLUN, uint8(m.LocalAddress), m.LocalLUN, m.Sequence, uint8(m.CompletionCode), m.Checksum1, m.Checksum2)
}

func TestAES(t *testing.T) {
	ev.Check(t, "TestAES", ev.PickN(8000, 400000), func(t *rapid.T) {
		var key [16]byte
		copy(key[:], rapid.SliceOfN(rapid.Byte(), 16, 16).Draw(t, "key"))
		p := genPayload().Draw(t, "p")
		a, err := ipmi.NewAES128CBC(key)
		if err != nil {
			t.Fatalf("NewAES128CBC: %v", err)
		}
		usedBuffer := rapid.Bool().Draw(t, "usedBuffer")
		w := serOnce(t, usedBuffer, a, gopacket.Payload(p))
		ev.Eval()
		// the reference must accept the encoding: IV || E(data || 01..n || n), n minimal
		_, plain, pad, rerr := ref.AESDecrypt(key[:], w)
		if rerr != nil {
			t.Fatalf("reference cannot decrypt the library's encoding: %v", rerr)
		}
		if !bytes.Equal(plain, p) || pad != 15-len(p)%16 || len(w) != 16+len(p)+pad+1 {
			t.Fatalf("reference decrypts to %d bytes with pad %d; want %d bytes with pad %d", len(plain), pad, len(p), 15-len(p)%16)
		}
		b, _ := ipmi.NewAES128CBC(key)
		if err := b.DecodeFromBytes(exact(w), gopacket.NilDecodeFeedback); err != nil {
			t.Fatalf("decode of own serialisation failed: %v", err)
		}
		if !bytes.Equal(b.LayerPayload(), p) {
			t.Fatalf("payload differs after round trip: % x vs % x", b.LayerPayload(), p)
		}
		w2 := serOnce(t, !usedBuffer, b, gopacket.Payload(append([]byte(nil), b.LayerPayload()...)))
		_, plain2, pad2, rerr := ref.AESDecrypt(key[:], w2)
		if rerr != nil || !bytes.Equal(plain2, p) || pad2 != pad || len(w2) != len(w) {
			t.Fatalf("second serialisation decrypts differently: err %v, %d bytes pad %d", rerr, len(plain2), pad2)
		}
		if bytes.Equal(w[:16], w2[:16]) {
			t.Fatalf("two serialisations used the same IV % x", w[:16])
		}
		// the reference encoding decodes too
		var iv [16]byte
		copy(iv[:], rapid.SliceOfN(rapid.Byte(), 16, 16).Draw(t, "iv"))
		c, _ := ipmi.NewAES128CBC(key)
		if err := c.DecodeFromBytes(exact(ref.AESEncrypt(key[:], iv, p)), gopacket.NilDecodeFeedback); err != nil || !bytes.Equal(c.LayerPayload(), p) {
			t.Fatalf("reference encoding does not decode: %v", err)
		}
		ev.Label(fmt.Sprintf("aes:len%%16=%d", len(p)%16))
		if len(p) > 0 {
			ev.NonTrivial(fmt.Sprintf("aes|%x|%x", key, p))
		}
		ev.Sample(map[string]any{"layer": "AES128CBC", "payloadLen": len(p), "pad": pad})
	})
}

func TestRAKP1(t *testing.T) {
	ev.Check(t, "TestRAKP1", ev.PickN(6000, 300000), func(t *rapid.T) {
		// the decoder value is used for two generated values in a row: the second
		// round trip starts from whatever the first left in it
		var d ipmi.RAKPMessage1
		for rep := 0; rep < 2; rep++ {
			r := ipmi.RAKPMessage1{
				Tag: rapid.Byte().Draw(t, "tag"), ManagedSystemSessionID: rapid.Uint32().Draw(t, "sid"),
				PrivilegeLevelLookup: rapid.Bool().Draw(t, "lookup"), MaxPrivilegeLevel: ipmi.PrivilegeLevel(rapid.IntRange(0, 15).Draw(t, "priv")),
			}
			copy(r.RemoteConsoleRandom[:], rapid.SliceOfN(rapid.Byte(), 16, 16).Draw(t, "random"))
			n := rapid.IntRange(0, 16).Draw(t, "ulen")
			u := make([]byte, n)
			for i := range u {
				u[i] = byte(rapid.IntRange(1, 127).Draw(t, "uc"))
			}
			r.Username = string(u)
			w := ser(t, &r)
			if err := d.DecodeFromBytes(exact(w), gopacket.NilDecodeFeedback); err != nil {
				t.Fatalf("decode of own serialisation failed: %v (% x)", err, w)
			}
			ev.Eval()
			if d.Tag != r.Tag || d.ManagedSystemSessionID != r.ManagedSystemSessionID || d.RemoteConsoleRandom != r.RemoteConsoleRandom ||
				d.PrivilegeLevelLookup != r.PrivilegeLevelLookup || d.MaxPrivilegeLevel != r.MaxPrivilegeLevel || d.Username != r.Username {
				t.Fatalf("fields differ: sent %+v decoded %+v", r, d)
			}
			if w2 := ser(t, &d); !bytes.Equal(w, w2) {
				t.Fatalf("re-serialisation differs:\n% x\n% x", w, w2)
			}
			p1, err := ref.ParseRAKP1(w)
			role := byte(r.MaxPrivilegeLevel)
			if !r.PrivilegeLevelLookup {
				role |= 0x10
			}
			if err != nil || p1.Tag != r.Tag || p1.SIDC != r.ManagedSystemSessionID || p1.RM != r.RemoteConsoleRandom || p1.Role != role || string(p1.User) != r.Username {
				t.Fatalf("reference parse differs: %v %+v", err, p1)
			}
			ev.Label(fmt.Sprintf("rakp1:ulen%d", n))
			if n > 0 {
				ev.NonTrivial(fmt.Sprintf("rakp1|%x", w))
			}
			ev.Sample(map[string]any{"layer": "RAKPMessage1", "username": r.Username, "priv": r.MaxPrivilegeLevel, "lookup": r.PrivilegeLevelLookup})
		}
	})
}

func TestCoverage(t *testing.T) {
	need := []string{"v2:oem", "msg:group:reqtrue", "msg:group:reqfalse", "msg:oem:reqtrue", "msg:oem:reqfalse", "v1:auth0", "v1:auth2"}
	for i := 0; i < 4; i++ {
		need = append(need, fmt.Sprintf("v2:len%%4=%d", i))
	}
	for i := 0; i < 16; i++ {
		need = append(need, fmt.Sprintf("aes:len%%16=%d", i))
	}
	ev.RequireLabels(t, 1, append(need, "v2:round-trip-after-rejected-packet")...)
}

func min(a, b int) int {
	if a < b {
		return a
	}
	return b
}
