package c08

import (
	"bytes"
	"testing"

	"github.com/gebn/bmc/pkg/ipmi"
	"github.com/google/gopacket"

	"verif/harness/ref"
)

// A fresh serialize buffer has no room in front of the data, so prepending the
// IV reallocates it: the payload must still be encrypted in the bytes returned.
func TestRegressionAESFreshBuffer(t *testing.T) {
	key := [16]byte{9, 8, 7, 6, 5, 4, 3, 2, 1, 0, 1, 2, 3, 4, 5, 6}
	for _, n := range []int{0, 1, 15, 16, 17, 33, 100} {
		p := bytes.Repeat([]byte{0x5a}, n)
		a, _ := ipmi.NewAES128CBC(key)
		buf := gopacket.NewSerializeBuffer()
		if err := gopacket.SerializeLayers(buf, opts, a, gopacket.Payload(p)); err != nil {
			t.Fatal(err)
		}
		_, plain, _, err := ref.AESDecrypt(key[:], buf.Bytes())
		ev.Eval()
		if err != nil || !bytes.Equal(plain, p) {
			ev.Violation("TestRegressionAESFreshBuffer", n, "AES layer serialised into a fresh buffer does not decrypt to the payload")
			t.Fatalf("%d-byte payload: %v", n, err)
		}
	}
}
