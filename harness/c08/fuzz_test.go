package c08

import (
	"bytes"
	"fmt"
	"testing"

	"github.com/gebn/bmc/pkg/ipmi"
	"github.com/google/gopacket"

	"verif/harness/hx"
	"verif/harness/ref"
)

func fuzzFail(t *testing.T, data []byte, msg string) {
	t.Helper()
	ev.Violation("FuzzDecodeSerialiseDecode", map[string]any{"input": fmt.Sprintf("%x", data)}, msg)
	t.Fatalf("%s", msg)
}

// FuzzDecodeSerialiseDecode: whatever decodes must serialise back to the same
// bytes (for the fields that are on the wire) and decode again to equal fields.
func FuzzDecodeSerialiseDecode(f *testing.F) {
	msg := (&ref.Msg{RsAddr: 0x20, NetFn: 0x2c, RqAddr: 0x81, RqSeq: 1, Cmd: 2, Data: []byte{0xdc, 1, 0, 0}}).Bytes()
	f.Add(uint8(0), msg)
	f.Add(uint8(1), ref.BuildPacket(&ref.Packet{PayloadType: ref.PTIPMI, Payload: msg}, 0, nil)[4:])
	f.Add(uint8(1), ref.BuildPacket(&ref.Packet{PayloadType: ref.PTOEM, OEMIANA: 0x1234, OEMPayloadID: 9, Payload: msg, Authenticated: true, SessionID: 7, Seq: 3}, ref.IntegSHA1_96, []byte("0123456789abcdefghij"))[4:])
	f.Add(uint8(2), (&ref.V1{AuthType: 2, Seq: 5, ID: 6, Payload: msg}).Bytes())
	f.Add(uint8(3), append(make([]byte, 28), []byte("root")...))
	key := []byte("0123456789abcdefghij")
	opts := gopacket.SerializeOptions{FixLengths: false, ComputeChecksums: false}
	f.Fuzz(func(t *testing.T, kind uint8, data []byte) {
		if len(data) > 512 {
			data = data[:512]
		}
		in := append([]byte(nil), data...)
		buf := gopacket.NewSerializeBuffer()
		switch kind % 4 {
		case 0:
			var m ipmi.Message
			if m.DecodeFromBytes(in, gopacket.NilDecodeFeedback) != nil {
				return
			}
			if err := gopacket.SerializeLayers(buf, opts, &m, gopacket.Payload(m.LayerPayload())); err != nil {
				fuzzFail(t, data, fmt.Sprintf("decoded message does not serialise: %v", err))
			}
			if !bytes.Equal(buf.Bytes(), data) {
				fuzzFail(t, data, fmt.Sprintf("message: serialise(decode(b)) != b\n% x\n% x", data, buf.Bytes()))
			}
		case 1:
			s := ipmi.V2Session{IntegrityAlgorithm: hx.IntegHash(ref.IntegSHA1_96, key)}
			if s.DecodeFromBytes(in, gopacket.NilDecodeFeedback) != nil {
				return
			}
			if err := gopacket.SerializeLayers(buf, opts, &s, gopacket.Payload(s.LayerPayload())); err != nil {
				fuzzFail(t, data, fmt.Sprintf("decoded session wrapper does not serialise: %v", err))
			}
			// bytes after the AuthCode-less wrapper are ignored by the decoder for
			// unauthenticated packets: compare the prefix that was consumed
			out := buf.Bytes()
			if len(out) > len(data) || !bytes.Equal(out, data[:len(out)]) {
				// an authenticated packet whose pad-length byte differs from its
				// counted pad is re-serialised with the counted pad
				var s2 ipmi.V2Session
				s2.IntegrityAlgorithm = hx.IntegHash(ref.IntegSHA1_96, key)
				if err := s2.DecodeFromBytes(append([]byte(nil), out...), gopacket.NilDecodeFeedback); err != nil {
					if s.Authenticated {
						return // signature covers the original pad-length byte
					}
					fuzzFail(t, data, fmt.Sprintf("re-serialised wrapper does not decode: %v\n% x\n% x", err, data, out))
				}
				if s2.ID != s.ID || s2.Sequence != s.Sequence || s2.PayloadType != s.PayloadType || !bytes.Equal(s2.LayerPayload(), s.LayerPayload()) {
					fuzzFail(t, data, fmt.Sprintf("wrapper fields change across serialise/decode\n% x\n% x", data, out))
				}
			}
		case 2:
			var s ipmi.V1Session
			if s.DecodeFromBytes(in, gopacket.NilDecodeFeedback) != nil {
				return
			}
			if err := gopacket.SerializeLayers(buf, opts, &s, gopacket.Payload(s.LayerPayload())); err != nil {
				fuzzFail(t, data, fmt.Sprintf("decoded v1.5 wrapper does not serialise: %v", err))
			}
			if !bytes.Equal(buf.Bytes(), data) {
				fuzzFail(t, data, fmt.Sprintf("v1.5 wrapper: serialise(decode(b)) != b\n% x\n% x", data, buf.Bytes()))
			}
		case 3:
			var r ipmi.RAKPMessage1
			if r.DecodeFromBytes(in, gopacket.NilDecodeFeedback) != nil {
				return
			}
			if err := gopacket.SerializeLayers(buf, opts, &r); err != nil {
				fuzzFail(t, data, fmt.Sprintf("decoded RAKP1 does not serialise: %v", err))
			}
			var r2 ipmi.RAKPMessage1
			if err := r2.DecodeFromBytes(append([]byte(nil), buf.Bytes()...), gopacket.NilDecodeFeedback); err != nil || r2.Username != r.Username || r2.Tag != r.Tag ||
				r2.ManagedSystemSessionID != r.ManagedSystemSessionID || r2.RemoteConsoleRandom != r.RemoteConsoleRandom || r2.MaxPrivilegeLevel != r.MaxPrivilegeLevel || r2.PrivilegeLevelLookup != r.PrivilegeLevelLookup {
				fuzzFail(t, data, fmt.Sprintf("RAKP1 fields change across serialise/decode: %v\n% x\n% x", err, data, buf.Bytes()))
			}
		}
	})
}
