// C06: requests are encoded exactly as the IPMI and DCMI specifications define.
package c06

import (
	"bytes"
	"context"
	"fmt"
	"testing"

	"github.com/gebn/bmc"
	"github.com/gebn/bmc/pkg/dcmi"
	"github.com/gebn/bmc/pkg/ipmi"
	"github.com/google/gopacket"
	"pgregory.net/rapid"

	"verif/harness/evid"
	"verif/harness/hx"
	"verif/harness/ref"
	"verif/harness/simbmc"
)

var ev *evid.E

func TestMain(m *testing.M) {
	ev = evid.New("C06", "exploration",
		"every request layer with generated field values (and complete enumeration of the small field domains) is sent by the real library outside and inside a session; the datagram "+
			"captured by the simulated BMC is parsed from scratch by the reference (RMCP header, wrapper, message addresses/NetFn/LUN/command/checksums, body field by field) and compared "+
			"with the caller's values. RMCP+ Open Session Request, RAKP1 and RAKP3 are observed during generated handshakes. Non-trivial = at least one non-zero field; distinct by "+
			"(layer, field tuple, inside/outside)")
	ev.Assume("values outside a field's wire width are outside the domain", "reference request tables are typed in from IPMI v2.0 / DCMI 1.5 (DESIGN appendix A)")
	evid.Main(m, ev)
}

type conn interface {
	SendCommand(context.Context, ipmi.Command) (ipmi.CompletionCode, error)
}

// verify checks the datagram the BMC received for one call.
func verify(w *hx.World, before int, name string, key uint16, lun byte, want map[string]uint64, sess *simbmc.Session) error {
	return verifyN(w, before, 1, name, key, lun, want, sess)
}

// verifyN checks the n datagrams (first transmission and retransmissions) the
// BMC received for one call: each must be the complete reference encoding.
func verifyN(w *hx.World, before, n int, name string, key uint16, lun byte, want map[string]uint64, sess *simbmc.Session) error {
	if len(w.BMC.Log) != before+n {
		return fmt.Errorf("%s: BMC received %d datagrams, want %d", name, len(w.BMC.Log)-before, n)
	}
	for i := 0; i < n; i++ {
		if err := verifyOne(w, w.BMC.Log[before+i], fmt.Sprintf("%s (transmission %d of %d)", name, i+1, n), key, lun, want, sess); err != nil {
			return err
		}
	}
	return nil
}

func verifyOne(w *hx.World, rx *simbmc.Rx, name string, key uint16, lun byte, want map[string]uint64, sess *simbmc.Session) error {
	if len(rx.Problems) > 0 {
		return fmt.Errorf("%s: reference parse of % x reports: %v", name, rx.Raw, rx.Problems)
	}
	if rx.Pkt == nil || rx.Pkt.PayloadType != ref.PTIPMI {
		return fmt.Errorf("%s: payload type %v", name, rx.Pkt)
	}
	if sess == nil {
		if rx.Pkt.SessionID != 0 || rx.Pkt.Seq != 0 || rx.Pkt.Encrypted || rx.Pkt.Authenticated {
			return fmt.Errorf("%s: session-less packet has session fields set: %+v", name, rx.Pkt)
		}
	} else if rx.Pkt.SessionID != sess.ID || rx.Sess != sess || !rx.AuthOK {
		return fmt.Errorf("%s: in-session packet not addressed/authenticated for session %#x: %+v", name, sess.ID, rx.Pkt)
	}
	if rx.Msg == nil || rx.Req == nil || rx.ReqErr != nil {
		return fmt.Errorf("%s: request does not parse: %v", name, rx.ReqErr)
	}
	if rx.Req.Key() != key {
		return fmt.Errorf("%s: NetFn/command %#04x, want %#04x", name, rx.Req.Key(), key)
	}
	if rx.Msg.RsLUN != lun {
		return fmt.Errorf("%s: responder LUN %d, want %d", name, rx.Msg.RsLUN, lun)
	}
	if rx.Msg.RsAddr != 0x20 || rx.Msg.RqAddr != 0x81 || rx.Msg.RqLUN != 0 {
		return fmt.Errorf("%s: addresses %#x/%#x LUN %d", name, rx.Msg.RsAddr, rx.Msg.RqAddr, rx.Msg.RqLUN)
	}
	if len(rx.Req.Fields) != len(want) {
		return fmt.Errorf("%s: parsed fields %v, want %v", name, rx.Req.Fields, want)
	}
	for k, v := range want {
		if got, ok := rx.Req.Fields[k]; !ok || got != v {
			return fmt.Errorf("%s: field %s = %d (present %v), want %d; all fields %v; wire % x", name, k, got, ok, v, rx.Req.Fields, rx.Raw)
		}
	}
	return nil
}

func TestCatalogue(t *testing.T) {
	cat := hx.Catalogue()
	ev.Check(t, "TestCatalogue", ev.PickN(8000, 400000), func(t *rapid.T) {
		creds := hx.Creds{User: "u", Password: []byte("p"), Priv: 4, Suite: rapid.SampledFrom(hx.Suites12()).Draw(t, "suite"), Seed: rapid.Uint64().Draw(t, "seed")}
		w := hx.NewWorldFor(creds, true)
		inside := rapid.Bool().Draw(t, "inside")
		var c conn = w.T
		var bs *simbmc.Session
		if inside {
			s, err := w.T.NewV2Session(context.Background(), creds.Opts())
			if err != nil {
				t.Fatalf("session: %v", err)
			}
			c, bs = s, w.BMC.ActiveSession()
		}
		n := rapid.IntRange(1, 4).Draw(t, "n")
		for i := 0; i < n; i++ {
			e := rapid.SampledFrom(cat).Draw(t, "command")
			call := e.Prepare(t, w.BMC)
			before := len(w.BMC.Log)
			ctx, cancel := w.Ctx(1)
			_, _ = c.SendCommand(ctx, call.Cmd)
			cancel()
			ev.Eval()
			if err := verify(w, before, call.Name, call.Key, call.WantLUN, call.WantFields, bs); err != nil {
				t.Fatalf("%v", err)
			}
			ev.Label(fmt.Sprintf("%s:inside=%v", call.Name, inside))
			nz := false
			for _, v := range call.WantFields {
				nz = nz || v != 0
			}
			if nz {
				ev.NonTrivial(fmt.Sprintf("%s|%v|%v", call.Name, call.WantFields, inside))
			}
			ev.Sample(map[string]any{"command": call.Name, "fields": call.WantFields, "inside": inside, "wire": fmt.Sprintf("%x", w.BMC.Log[before].Raw)})
		}
	})
}

// TestEnumerated sweeps the small field domains completely (session-less; the
// message encoding inside a session is identical and covered by TestCatalogue).
func TestEnumerated(t *testing.T) {
	w := hx.NewWorld(uint64(ev.Seed)+99, true)
	send := func(name string, key uint16, lun byte, cmd ipmi.Command, want map[string]uint64) {
		before := len(w.BMC.Log)
		ctx, cancel := w.Ctx(1)
		_, _ = w.T.SendCommand(ctx, cmd)
		cancel()
		ev.Eval()
		if err := verify(w, before, name, key, lun, want, nil); err != nil {
			ev.Violation("TestEnumerated", map[string]any{"command": name, "fields": want}, err.Error())
			t.Fatalf("%v", err)
		}
		ev.NonTrivial(fmt.Sprintf("%s|%v", name, want))
		// keep the log from growing without bound
		w.BMC.Log = w.BMC.Log[:0]
		w.Net.Sent, w.Net.Delivered = nil, nil
	}
	k := func(nf, c byte) uint16 { return uint16(nf)<<8 | uint16(c) }
	for ext := 0; ext < 2; ext++ {
		for ch := 0; ch < 16; ch++ {
			for p := 0; p <= 5; p++ {
				send("Get Channel Authentication Capabilities", k(ref.NetFnApp, ref.CmdGetChanAuthCap), 0,
					&ipmi.GetChannelAuthenticationCapabilitiesCmd{Req: ipmi.GetChannelAuthenticationCapabilitiesReq{ExtendedData: ext == 1, Channel: ipmi.Channel(ch), MaxPrivilegeLevel: ipmi.PrivilegeLevel(p)}},
					map[string]uint64{"ext": uint64(ext), "channel": uint64(ch), "priv": uint64(p)})
			}
		}
	}
	ev.Label("enum:chan-auth-cap")
	step := 1
	if !ev.Thorough() {
		step = 5
	}
	for ch := 0; ch < 16; ch++ {
		for pt := 0; pt < 64; pt += 1 {
			for idx := (ch + pt) % step; idx < 64; idx += step {
				send("Get Channel Cipher Suites", k(ref.NetFnApp, ref.CmdGetCipherSuites), 0,
					&ipmi.GetChannelCipherSuitesCmd{Req: ipmi.GetChannelCipherSuitesReq{Channel: ipmi.Channel(ch), PayloadType: ipmi.PayloadType(pt), ListIndex: uint8(idx)}},
					map[string]uint64{"channel": uint64(ch), "payloadType": uint64(pt), "listAlgs": 1, "index": uint64(idx)})
			}
		}
	}
	ev.Label("enum:cipher-suites")
	for idx := 0; idx < 256; idx++ {
		want := map[string]uint64{"index": uint64(idx)}
		req := ipmi.GetSessionInfoReq{Index: ipmi.SessionIndex(idx), Handle: ipmi.SessionHandle(idx ^ 0x5a), ID: uint32(idx)*0x01010101 + 7}
		if idx == 0xFE {
			want["handle"] = uint64(req.Handle)
		}
		if idx == 0xFF {
			want["id"] = uint64(req.ID)
		}
		send("Get Session Info", k(ref.NetFnApp, ref.CmdGetSessionInfo), 0, &ipmi.GetSessionInfoCmd{Req: req}, want)
	}
	ev.Label("enum:session-info")
	for c := 0; c <= 5; c++ {
		send("Chassis Control", k(ref.NetFnChassis, ref.CmdChassisControl), 0, &ipmi.ChassisControlCmd{Req: ipmi.ChassisControlReq{ChassisControl: ipmi.ChassisControl(c)}}, map[string]uint64{"control": uint64(c)})
	}
	for lvl := 0; lvl <= 5; lvl++ {
		cmd := &ipmi.SetSessionPrivilegeLevelCmd{Req: ipmi.SetSessionPrivilegeLevelReq{PrivilegeLevel: ipmi.PrivilegeLevel(lvl)}}
		if lvl == 1 {
			// Callback must be refused without anything being transmitted
			before := w.Net.Sends
			ctx, cancel := w.Ctx(1)
			_, err := w.T.SendCommand(ctx, cmd)
			cancel()
			ev.Eval()
			if err == nil || w.Net.Sends != before {
				ev.Violation("TestEnumerated", "SetSessionPrivilegeLevel(Callback)", fmt.Sprintf("err=%v, %d datagrams sent", err, w.Net.Sends-before))
				t.Fatalf("Set Session Privilege Level Callback: err=%v sends=%d", err, w.Net.Sends-before)
			}
			continue
		}
		send("Set Session Privilege Level", k(ref.NetFnApp, ref.CmdSetSessPriv), 0, cmd, map[string]uint64{"level": uint64(lvl)})
	}
	for num := 0; num < 256; num++ {
		for lun := 0; lun < 4; lun++ {
			send("Get Sensor Reading", k(ref.NetFnSensor, ref.CmdSensorReading), byte(lun),
				&ipmi.GetSensorReadingCmd{Req: ipmi.GetSensorReadingReq{Number: uint8(num)}, OwnerLUN: ipmi.LUN(lun)}, map[string]uint64{"number": uint64(num)})
		}
	}
	ev.Label("enum:sensor-reading")
	// Close Session: non-null IDs carry no handle; the null ID carries the handle
	for h := 0; h < 256; h++ {
		send("Close Session", k(ref.NetFnApp, ref.CmdCloseSession), 0, &ipmi.CloseSessionCmd{Req: ipmi.CloseSessionReq{ID: 0, Handle: ipmi.SessionHandle(h)}}, map[string]uint64{"id": 0, "handle": uint64(h)})
		id := uint32(h)<<24 | uint32(h*31+1)
		send("Close Session", k(ref.NetFnApp, ref.CmdCloseSession), 0, &ipmi.CloseSessionCmd{Req: ipmi.CloseSessionReq{ID: id, Handle: ipmi.SessionHandle(h)}}, map[string]uint64{"id": uint64(id)})
	}
	// DCMI
	for p, cmd := range map[int]ipmi.Command{1: dcmi.NewGetDCMICapabilitiesInfoSupportedCapabilitiesCmd(), 2: dcmi.NewGetDCMICapabilitiesInfoMandatoryPlatformAttrsCmd(),
		3: dcmi.NewGetDCMICapabilitiesInfoOptionalPlatformAttrsCmd(), 4: dcmi.NewGetDCMICapabilitiesInfoManageabilityAccessAttrsCmd(),
		5: dcmi.NewGetDCMICapabilitiesInfoEnhancedSystemPowerStatisticsAttrsCmd()} {
		send("Get DCMI Capabilities Info", k(ref.NetFnGroup, ref.CmdDCMICaps), 0, cmd, map[string]uint64{"param": uint64(p)})
	}
	for ent := 0; ent < 256; ent++ {
		for start := 0; start < 256; start += 1 + ent%3 {
			send("Get DCMI Sensor Info", k(ref.NetFnGroup, ref.CmdDCMISensorInfo), 0,
				&dcmi.GetDCMISensorInfoCmd{Req: dcmi.GetDCMISensorInfoReq{Type: ipmi.SensorType(ent ^ start), Entity: ipmi.EntityID(ent), InstanceStart: uint8(start)}},
				map[string]uint64{"type": uint64(byte(ent ^ start)), "entity": uint64(ent), "instance": 0, "start": uint64(start)})
		}
	}
	ev.Label("enum:dcmi")
	for _, cmd := range []struct {
		n string
		k uint16
		c ipmi.Command
	}{{"Get Device ID", k(ref.NetFnApp, ref.CmdGetDeviceID), &ipmi.GetDeviceIDCmd{}}, {"Get System GUID", k(ref.NetFnApp, ref.CmdGetSystemGUID), &ipmi.GetSystemGUIDCmd{}},
		{"Get Chassis Status", k(ref.NetFnChassis, ref.CmdChassisStatus), &ipmi.GetChassisStatusCmd{}}, {"Get SDR Repository Info", k(ref.NetFnStorage, ref.CmdSDRRepoInfo), &ipmi.GetSDRRepositoryInfoCmd{}},
		{"Reserve SDR Repository", k(ref.NetFnStorage, ref.CmdReserveSDR), &ipmi.ReserveSDRRepositoryCmd{}}} {
		send(cmd.n, cmd.k, 0, cmd.c, map[string]uint64{})
	}
	ev.Label("enum:bodyless")
	// Get DCMI Sensor Info: every entity instance byte (00h = all instances, with
	// the instance start; 01h..FFh = that instance, instance start 0)
	for inst := 0; inst <= 255; inst++ {
		for _, start := range []int{0, 9, 255} {
			wantStart := start
			if inst != 0 {
				wantStart = 0
			}
			send("Get DCMI Sensor Info", k(ref.NetFnGroup, ref.CmdDCMISensorInfo), 0,
				&dcmi.GetDCMISensorInfoCmd{Req: dcmi.GetDCMISensorInfoReq{Type: ipmi.SensorType(inst ^ 0x55), Entity: ipmi.EntityID(255 - inst), Instance: ipmi.EntityInstance(inst), InstanceStart: uint8(start)}},
				map[string]uint64{"type": uint64(byte(inst ^ 0x55)), "entity": uint64(255 - inst), "instance": uint64(inst), "start": uint64(wantStart)})
		}
	}
	ev.Label("enum:dcmi-entity-instance")
}

// TestHandshakePayloads observes Open Session Request, RAKP1 and RAKP3 for
// generated options, and checks that over-long usernames are refused.
func TestHandshakePayloads(t *testing.T) {
	ev.Check(t, "TestHandshakePayloads", ev.PickN(3000, 150000), func(t *rapid.T) {
		c := hx.GenCreds(hx.Suites9()).Draw(t, "creds")
		long := rapid.IntRange(0, 4).Draw(t, "longName") == 0
		if long {
			// more than 16 BYTES: plain ASCII, or multi-byte UTF-8 characters so that
			// the byte length exceeds 16 while the character count may not
			n := rapid.IntRange(17, 40).Draw(t, "ulen")
			if rapid.IntRange(0, 2).Draw(t, "veryLong") == 0 {
				// lengths around the widths a length might be narrowed to on the way
				n = rapid.SampledFrom([]int{255, 256, 257, 260, 272, 273, 511, 512, 528, 65536, 65540, 65552}).Draw(t, "ulenWide")
				ev.Label("very-long-username-refused")
			}
			var u []byte
			switch rapid.IntRange(0, 2).Draw(t, "nameKind") {
			case 0:
				for i := 0; i < n; i++ {
					u = append(u, byte('a'+i%26))
				}
			case 1:
				for len(u) < n {
					u = append(u, []byte(rapid.SampledFrom([]string{"ü", "é", "ß", "€", "a", "z", "漢"}).Draw(t, "char"))...)
				}
			default:
				u = rapid.SliceOfN(rapid.ByteRange(1, 255), n, n).Draw(t, "nameBytes")
			}
			c.User = string(u)
		}
		w := hx.NewWorldFor(c, true)
		if long {
			// a BMC that would accept the truncated name, to make truncation visible
			w.BMC.Users[c.User[:16]] = c.Password
			w.BMC.Users[c.User] = c.Password
		}
		ctx, cancel := w.Ctx(6)
		sess, err := w.T.NewV2Session(ctx, c.Opts())
		cancel()
		ev.Eval()
		if long {
			if err == nil || sess != nil {
				t.Fatalf("username of %d bytes: got session %v, err %v; want an error", len(c.User), sess != nil, err)
			}
			for _, rx := range w.BMC.Log {
				if rx.Pkt != nil && rx.Pkt.PayloadType == ref.PTRAKP1 || (len(rx.Raw) > 5 && rx.Raw[5]&0x3f == ref.PTRAKP1) {
					t.Fatalf("username of %d bytes (%q): a RAKP1 was transmitted: % x", len(c.User), c.User, rx.Raw)
				}
			}
			ev.Label("long-username-refused")
			return
		}
		if err != nil {
			t.Fatalf("handshake failed: %v; %v", err, w.BMC.AllProblems())
		}
		if p := w.BMC.AllProblems(); len(p) > 0 {
			t.Fatalf("reference parse of the handshake reports: %v", p)
		}
		if len(w.BMC.Log) != 3 {
			t.Fatalf("handshake used %d datagrams, want 3", len(w.BMC.Log))
		}
		o, r1, r3 := w.BMC.Log[0], w.BMC.Log[1], w.BMC.Log[2]
		if o.OpenReq == nil || r1.RAKP1 == nil || r3.RAKP3 == nil {
			t.Fatalf("handshake payload order wrong")
		}
		for i, rx := range w.BMC.Log {
			if rx.Pkt.SessionID != 0 || rx.Pkt.Seq != 0 || rx.Pkt.Encrypted || rx.Pkt.Authenticated {
				t.Fatalf("handshake datagram %d has session fields set: %+v", i, rx.Pkt)
			}
		}
		if o.Pkt.PayloadType != ref.PTOpenReq || r1.Pkt.PayloadType != ref.PTRAKP1 || r3.Pkt.PayloadType != ref.PTRAKP3 {
			t.Fatalf("payload types %#x %#x %#x", o.Pkt.PayloadType, r1.Pkt.PayloadType, r3.Pkt.PayloadType)
		}
		q := o.OpenReq
		if q.Priv != c.Priv || q.SIDM == 0 {
			t.Fatalf("open session request: priv %d (want %d), console session ID %#x", q.Priv, c.Priv, q.SIDM)
		}
		for i, a := range []uint8{c.Suite.Auth, c.Suite.Integ, c.Suite.Conf} {
			if q.Algs[i].Length != 8 || q.Algs[i].Alg != a {
				t.Fatalf("open session request payload %d: %+v, want algorithm %d", i, q.Algs[i], a)
			}
		}
		bs := w.BMC.ActiveSession()
		role := c.Priv
		if !c.Lookup {
			role |= 0x10
		}
		if r1.RAKP1.SIDC != bs.ID || r1.RAKP1.Role != role || string(r1.RAKP1.User) != c.User {
			t.Fatalf("RAKP1: session ID %#x (want %#x) role %#x (want %#x) user %q (want %q)", r1.RAKP1.SIDC, bs.ID, r1.RAKP1.Role, role, r1.RAKP1.User, c.User)
		}
		if r3.RAKP3.Status != 0 || r3.RAKP3.SIDC != bs.ID || !bytes.Equal(r3.RAKP3.Code, bs.RAKP.RAKP3Code(bs.Kuid)) || r3.RAKP3.Tag == r1.RAKP1.Tag && false {
			t.Fatalf("RAKP3: %+v", r3.RAKP3)
		}
		ev.Label(fmt.Sprintf("handshake:auth%d", c.Suite.Auth))
		ev.NonTrivial(fmt.Sprintf("hs|%v|%q|%d|%v", c.Suite, c.User, c.Priv, c.Lookup))
		ev.Sample(map[string]any{"payloads": "OpenSessionReq/RAKP1/RAKP3", "suite": c.Suite.String(), "user": c.User, "priv": c.Priv, "lookup": c.Lookup,
			"openReq": fmt.Sprintf("%x", o.Pkt.Payload), "rakp1": fmt.Sprintf("%x", r1.Pkt.Payload)})
	})
}

// checkHandshake verifies the three datagrams of one session establishment
// against the reference encodings.
func checkHandshake(w *hx.World, before int, c hx.Creds) error {
	if p := w.BMC.AllProblems(); len(p) > 0 {
		return fmt.Errorf("reference parse of the handshake reports: %v", p)
	}
	if len(w.BMC.Log) != before+3 {
		return fmt.Errorf("handshake used %d datagrams, want 3", len(w.BMC.Log)-before)
	}
	o, r1, r3 := w.BMC.Log[before], w.BMC.Log[before+1], w.BMC.Log[before+2]
	if o.OpenReq == nil || r1.RAKP1 == nil || r3.RAKP3 == nil {
		return fmt.Errorf("handshake payload order wrong")
	}
	for i, rx := range w.BMC.Log[before:] {
		if rx.Pkt.SessionID != 0 || rx.Pkt.Seq != 0 || rx.Pkt.Encrypted || rx.Pkt.Authenticated {
			return fmt.Errorf("handshake datagram %d has session fields set: %+v", i, rx.Pkt)
		}
	}
	if o.Pkt.PayloadType != ref.PTOpenReq || r1.Pkt.PayloadType != ref.PTRAKP1 || r3.Pkt.PayloadType != ref.PTRAKP3 {
		return fmt.Errorf("payload types %#x %#x %#x", o.Pkt.PayloadType, r1.Pkt.PayloadType, r3.Pkt.PayloadType)
	}
	q := o.OpenReq
	if q.Priv != c.Priv || q.SIDM == 0 {
		return fmt.Errorf("open session request: priv %d (want %d), console session ID %#x", q.Priv, c.Priv, q.SIDM)
	}
	// byte-exact: the reference encoding of the same fields (13.17)
	want := []byte{q.Tag, c.Priv, 0, 0, byte(q.SIDM), byte(q.SIDM >> 8), byte(q.SIDM >> 16), byte(q.SIDM >> 24)}
	for i, a := range []uint8{c.Suite.Auth, c.Suite.Integ, c.Suite.Conf} {
		if q.Algs[i].Length != 8 || q.Algs[i].Alg != a {
			return fmt.Errorf("open session request payload %d: %+v, want algorithm %d", i, q.Algs[i], a)
		}
		want = append(want, ref.AlgPayload{Type: byte(i), Length: 8, Alg: a}.Bytes()...)
	}
	if !bytes.Equal(o.Pkt.Payload, want) {
		return fmt.Errorf("open session request is % x, reference encoding % x", o.Pkt.Payload, want)
	}
	bs := r1.Sess
	if bs == nil {
		return fmt.Errorf("RAKP1 names no session the BMC opened")
	}
	role := c.Priv
	if !c.Lookup {
		role |= 0x10
	}
	if r1.RAKP1.SIDC != bs.ID || r1.RAKP1.Role != role || string(r1.RAKP1.User) != c.User {
		return fmt.Errorf("RAKP1: session ID %#x (want %#x) role %#x (want %#x) user %q (want %q)", r1.RAKP1.SIDC, bs.ID, r1.RAKP1.Role, role, r1.RAKP1.User, c.User)
	}
	if r3.RAKP3.Status != 0 || r3.RAKP3.SIDC != bs.ID || !bytes.Equal(r3.RAKP3.Code, bs.RAKP.RAKP3Code(bs.Kuid)) {
		return fmt.Errorf("RAKP3: %+v", r3.RAKP3)
	}
	return nil
}

// TestConnectionHistory: one connection carries a generated history of session
// opens, session-less and in-session commands and closes; every request datagram
// of the history must be the reference encoding whatever preceded it (the serialise
// buffer is shared by all of them).
func TestConnectionHistory(t *testing.T) {
	cat := hx.Catalogue()
	ev.Check(t, "TestConnectionHistory", ev.PickN(1500, 100000), func(t *rapid.T) {
		w := hx.NewWorld(rapid.Uint64().Draw(t, "bmcSeed"), true)
		if rapid.Bool().Draw(t, "hasKG") {
			w.BMC.KG = rapid.SliceOfN(rapid.Byte(), 20, 20).Draw(t, "kg")
		}
		// what the BMC puts in its own RMCP / session-less headers is its business
		w.BMC.RMCPSeq = byte(rapid.SampledFrom([]int{0, 0, 0, 0x2a, 0xfe}).Draw(t, "bmcRMCPSequence"))
		w.BMC.NumberPlain = rapid.IntRange(0, 3).Draw(t, "bmcNumbersPlain") == 0
		type live struct {
			s  *bmc.V2Session
			bs *simbmc.Session
		}
		var sessions []live
		opens, inCmds, retx, setLevels := 0, 0, 0, 0
		sc := &hx.Scripter{}
		command := func(t *rapid.T, c conn, bs *simbmc.Session) {
			call := rapid.SampledFrom(cat).Draw(t, "command").Prepare(t, w.BMC)
			// the first attempts are answered with something that makes the library
			// send the request again; every transmission is checked
			var script []hx.Outcome
			for i := rapid.IntRange(0, 3).Draw(t, "retries"); i > 0; i-- {
				script = append(script, rapid.SampledFrom([]hx.Outcome{hx.Busy, hx.TimeoutCC, hx.Garbage, hx.StrayOK, hx.StrayBusy, hx.BadSig, hx.StraySetup, hx.StrayASF}).Draw(t, "outcome"))
			}
			script = append(script, hx.Final)
			sc.Script, sc.Pos = script, 0
			sc.Install(w.BMC)
			before := len(w.BMC.Log)
			ctx, cancel := w.Ctx(len(script))
			_, _ = c.SendCommand(ctx, call.Cmd)
			cancel()
			w.BMC.Intercept = nil
			ev.Eval()
			n := len(script)
			if call.SerialiseFails {
				n = 0
			}
			if err := verifyN(w, before, n, call.Name, call.Key, call.WantLUN, call.WantFields, bs); err != nil {
				t.Fatalf("outcomes %s: %v", hx.ScriptString(script), err)
			}
			if n > 1 {
				retx++
			}
		}
		t.Repeat(map[string]func(*rapid.T){
			"open": func(t *rapid.T) {
				if len(sessions) >= 3 {
					t.Skip("enough sessions")
				}
				c := hx.GenCreds(hx.Suites12()).Draw(t, "creds")
				c.KG = w.BMC.KG
				w.BMC.Users[c.User] = c.Password
				before := len(w.BMC.Log)
				ctx, cancel := w.Ctx(6)
				s, err := w.T.NewV2Session(ctx, c.Opts())
				cancel()
				ev.Eval()
				if err != nil {
					t.Fatalf("open #%d (after %d in-session commands) failed: %v; BMC: %v", opens+1, inCmds, err, w.BMC.AllProblems())
				}
				if err := checkHandshake(w, before, c); err != nil {
					t.Fatalf("open #%d (after %d in-session commands): %v", opens+1, inCmds, err)
				}
				sessions = append(sessions, live{s, w.BMC.Sessions[s.RemoteID]})
				opens++
				if retx > 0 {
					ev.Label("history:retransmissions-checked")
				}
				if opens > 1 && inCmds > 0 {
					ev.Label("history:reopen-after-in-session-traffic")
					ev.NonTrivial(fmt.Sprintf("hist|%d|%d|%v|%d", opens, inCmds, c.Suite, c.Seed))
				}
			},
			"sessionless": func(t *rapid.T) { command(t, w.T, nil) },
			"insession": func(t *rapid.T) {
				if len(sessions) == 0 {
					t.Skip("no session")
				}
				l := sessions[rapid.IntRange(0, len(sessions)-1).Draw(t, "which")]
				command(t, l.s, l.bs)
				inCmds++
			},
			"method": func(t *rapid.T) {
				// the session's convenience methods build the request themselves: what
				// arrives must be the request for this call's arguments, whatever was
				// called on the session before
				if len(sessions) == 0 {
					t.Skip("no session")
				}
				l := sessions[rapid.IntRange(0, len(sessions)-1).Draw(t, "which")]
				ctx, cancel := w.Ctx(2)
				defer cancel()
				w.BMC.Intercept = nil
				before := len(w.BMC.Log)
				var name string
				var k uint16
				want := map[string]uint64{}
				n := 1
				switch rapid.IntRange(0, 7).Draw(t, "method") {
				case 0:
					lvl := rapid.IntRange(0, 5).Draw(t, "level")
					name, k, want["level"] = fmt.Sprintf("SetSessionPrivilegeLevel(%d)", lvl), uint16(ref.NetFnApp)<<8|uint16(ref.CmdSetSessPriv), uint64(lvl)
					if lvl == 1 {
						n = 0 // the request layer refuses CALLBACK
					}
					l.s.SetSessionPrivilegeLevel(ctx, ipmi.PrivilegeLevel(lvl))
					setLevels++
				case 1:
					name, k, want["level"] = "GetSessionPrivilegeLevel()", uint16(ref.NetFnApp)<<8|uint16(ref.CmdSetSessPriv), 0
					l.s.GetSessionPrivilegeLevel(ctx)
					if setLevels > 0 {
						ev.Label("history:privilege-query-after-change")
					}
				case 2:
					c := rapid.IntRange(0, 5).Draw(t, "control")
					name, k, want["control"] = fmt.Sprintf("ChassisControl(%d)", c), uint16(ref.NetFnChassis)<<8|uint16(ref.CmdChassisControl), uint64(c)
					l.s.ChassisControl(ctx, ipmi.ChassisControl(c))
				case 3:
					num := rapid.Byte().Draw(t, "sensor")
					name, k, want["number"] = fmt.Sprintf("GetSensorReading(%d)", num), uint16(ref.NetFnSensor)<<8|uint16(ref.CmdSensorReading), uint64(num)
					l.s.GetSensorReading(ctx, num)
				case 4:
					name, k = "GetDeviceID()", uint16(ref.NetFnApp)<<8|uint16(ref.CmdGetDeviceID)
					l.s.GetDeviceID(ctx)
				case 5:
					name, k = "GetSystemGUID()", uint16(ref.NetFnApp)<<8|uint16(ref.CmdGetSystemGUID)
					l.s.GetSystemGUID(ctx)
				case 6:
					// session info by ID: IDs that mean something to the session itself
					// (its own two IDs, their neighbours) as well as arbitrary ones
					id := rapid.SampledFrom([]uint32{l.s.ID(), l.s.LocalID, l.s.RemoteID, l.s.RemoteID + 1, 0, 1, 2, 0xffffffff, rapid.Uint32().Draw(t, "id")}).Draw(t, "sessionID")
					name, k = fmt.Sprintf("GetSessionInfo(by ID %#x; own IDs %#x/%#x)", id, l.s.LocalID, l.s.RemoteID), uint16(ref.NetFnApp)<<8|uint16(ref.CmdGetSessionInfo)
					want["index"], want["id"] = 0xFF, uint64(id)
					l.s.GetSessionInfo(ctx, &ipmi.GetSessionInfoReq{Index: ipmi.SessionIndexID, ID: id})
					ev.Label("history:session-info-by-id")
				case 7:
					if rapid.Bool().Draw(t, "byHandle") {
						h := rapid.Byte().Draw(t, "handle")
						name, k = fmt.Sprintf("GetSessionInfo(by handle %#x)", h), uint16(ref.NetFnApp)<<8|uint16(ref.CmdGetSessionInfo)
						want["index"], want["handle"] = 0xFE, uint64(h)
						l.s.GetSessionInfo(ctx, &ipmi.GetSessionInfoReq{Index: ipmi.SessionIndexHandle, Handle: ipmi.SessionHandle(h)})
					} else {
						idx := rapid.IntRange(0, 0xFD).Draw(t, "index")
						name, k = fmt.Sprintf("GetSessionInfo(index %d)", idx), uint16(ref.NetFnApp)<<8|uint16(ref.CmdGetSessionInfo)
						want["index"] = uint64(idx)
						l.s.GetSessionInfo(ctx, &ipmi.GetSessionInfoReq{Index: ipmi.SessionIndex(idx)})
					}
				}
				ev.Eval()
				if err := verifyN(w, before, n, name, k, 0, want, l.bs); err != nil {
					t.Fatalf("session method: %v", err)
				}
				inCmds++
			},
			"close": func(t *rapid.T) {
				if len(sessions) == 0 {
					t.Skip("no session")
				}
				i := rapid.IntRange(0, len(sessions)-1).Draw(t, "which")
				l := sessions[i]
				before := len(w.BMC.Log)
				ctx, cancel := w.Ctx(1)
				err := l.s.Close(ctx)
				cancel()
				if err != nil {
					t.Fatalf("close: %v", err)
				}
				if err := verify(w, before, "Close Session", uint16(ref.NetFnApp)<<8|uint16(ref.CmdCloseSession), 0, map[string]uint64{"id": uint64(l.bs.ID)}, l.bs); err != nil {
					t.Fatalf("%v", err)
				}
				sessions = append(sessions[:i], sessions[i+1:]...)
			},
		})
	})
}

// TestSetupRequestLayers: the RMCP+ session-setup request layers with field
// values the library's own handshake never produces. RAKP Message 3 (13.22): tag,
// status, two reserved bytes, the BMC's session ID, then the AuthCode; when the
// status reports an error the message ends after the session ID. RAKP Message 1:
// both lookup modes, all 16 privilege nibbles, every username length. Each is
// serialised into a fresh buffer and into one that carried another packet.
func TestSetupRequestLayers(t *testing.T) {
	opts := gopacket.SerializeOptions{FixLengths: true, ComputeChecksums: true}
	ser := func(l gopacket.SerializableLayer, used bool) ([]byte, error) {
		buf := gopacket.NewSerializeBuffer()
		if used {
			if err := gopacket.SerializeLayers(buf, opts, gopacket.Payload(bytes.Repeat([]byte{0xEE}, 300))); err != nil {
				return nil, err
			}
		}
		if err := gopacket.SerializeLayers(buf, opts, l); err != nil {
			return nil, err
		}
		return append([]byte(nil), buf.Bytes()...), nil
	}
	n := 0
	for status := 0; status < 256; status++ {
		for _, codeLen := range []int{0, 12, 16, 20, 32} {
			for _, used := range []bool{false, true} {
				code := make([]byte, codeLen)
				for i := range code {
					code[i] = byte(status*7 + i*13 + 1)
				}
				sid := uint32(0xA1B2C3D4) + uint32(status)
				l := &ipmi.RAKPMessage3{Tag: byte(status ^ 0x5a), Status: ipmi.StatusCode(status), ManagedSystemSessionID: sid, AuthCode: append([]byte(nil), code...)}
				got, err := ser(l, used)
				ev.Eval()
				want := []byte{byte(status ^ 0x5a), byte(status), 0, 0, byte(sid), byte(sid >> 8), byte(sid >> 16), byte(sid >> 24)}
				if status == 0 {
					want = append(want, code...)
				}
				cs := map[string]any{"layer": "RAKPMessage3", "status": status, "authCodeBytes": codeLen, "usedBuffer": used}
				if err != nil || !bytes.Equal(got, want) {
					msg := fmt.Sprintf("serialised % x (err %v), the specification gives % x", got, err, want)
					ev.Violation("TestSetupRequestLayers", cs, msg)
					t.Fatalf("%v: %s", cs, msg)
				}
				n++
				if status != 0 && codeLen > 0 {
					ev.NonTrivial(fmt.Sprintf("rakp3|%d|%d|%v", status, codeLen, used))
				}
			}
		}
	}
	for role := 0; role < 32; role++ {
		for ulen := 0; ulen <= 16; ulen++ {
			for _, used := range []bool{false, true} {
				user := "ABCDEFGHIJKLMNOP"[:ulen]
				l := &ipmi.RAKPMessage1{Tag: byte(role), ManagedSystemSessionID: 0x01020304, MaxPrivilegeLevel: ipmi.PrivilegeLevel(role & 0xf), PrivilegeLevelLookup: role&0x10 == 0, Username: user}
				for i := range l.RemoteConsoleRandom {
					l.RemoteConsoleRandom[i] = byte(i*3 + role)
				}
				got, err := ser(l, used)
				ev.Eval()
				want := append([]byte{byte(role), 0, 0, 0, 4, 3, 2, 1}, l.RemoteConsoleRandom[:]...)
				want = append(want, byte(role), 0, 0, byte(ulen))
				want = append(want, user...)
				cs := map[string]any{"layer": "RAKPMessage1", "role": role, "usernameLength": ulen, "usedBuffer": used}
				if err != nil || !bytes.Equal(got, want) {
					msg := fmt.Sprintf("serialised % x (err %v), the specification gives % x", got, err, want)
					ev.Violation("TestSetupRequestLayers", cs, msg)
					t.Fatalf("%v: %s", cs, msg)
				}
				ev.NonTrivial(fmt.Sprintf("rakp1|%d|%d|%v", role, ulen, used))
			}
		}
	}
	ev.Label("setup-request-layers")
}

func TestCoverage(t *testing.T) {
	need := []string{"setup-request-layers", "very-long-username-refused", "history:session-info-by-id", "history:privilege-query-after-change", "history:reopen-after-in-session-traffic", "history:retransmissions-checked", "long-username-refused", "enum:cipher-suites", "enum:dcmi", "enum:dcmi-entity-instance", "handshake:auth1", "handshake:auth2", "handshake:auth3"}
	for _, e := range hx.Catalogue() {
		_ = e
	}
	for _, n := range []string{"Get SDR", "Get Sensor Reading", "Get Power Reading", "Close Session", "Get Session Info", "Get DCMI Sensor Info"} {
		need = append(need, n+":inside=true")
	}
	for _, n := range []string{"Get SDR", "Get Channel Authentication Capabilities", "Get Channel Cipher Suites"} {
		need = append(need, n+":inside=false")
	}
	ev.RequireLabels(t, 1, need...)
}
