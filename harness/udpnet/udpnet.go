// Package udpnet runs a simulated BMC behind a real UDP socket on 127.0.0.1, so
// that the library can be used through its public DialV2 with no hook at all.
package udpnet

import (
	"net"
	"sync"
	"time"

	"verif/harness/simbmc"
)

// Reply is one datagram to send back, optionally after a delay.
type Reply struct {
	Data  []byte
	After time.Duration
}

// Server is the UDP front of one BMC.
type Server struct {
	BMC  *simbmc.BMC
	conn *net.UDPConn

	mu sync.Mutex
	// Policy, if set, decides what is sent for a received datagram (default: the
	// BMC's replies, immediately). It runs with the server lock held.
	Policy func(rx *simbmc.Rx) []Reply
	// Received counts datagrams since the last Arm.
	Received int
	// ValidSent counts unmodified BMC replies actually sent since the last Arm.
	ValidSent int
	closed    bool
	wg        sync.WaitGroup
}

// Listen starts serving b on an ephemeral loopback port.
func Listen(b *simbmc.BMC) (*Server, error) {
	c, err := net.ListenUDP("udp4", &net.UDPAddr{IP: net.IPv4(127, 0, 0, 1)})
	if err != nil {
		return nil, err
	}
	s := &Server{BMC: b, conn: c}
	s.wg.Add(1)
	go s.loop()
	return s, nil
}

func (s *Server) Addr() string { return s.conn.LocalAddr().String() }

// Lock gives exclusive access to the BMC and the policy.
func (s *Server) Lock()   { s.mu.Lock() }
func (s *Server) Unlock() { s.mu.Unlock() }

// Arm resets the per-call counters and installs a policy.
func (s *Server) Arm(p func(rx *simbmc.Rx) []Reply) {
	s.mu.Lock()
	s.Policy, s.Received, s.ValidSent = p, 0, 0
	s.mu.Unlock()
}

func (s *Server) Close() {
	s.mu.Lock()
	s.closed = true
	s.mu.Unlock()
	s.conn.Close()
	s.wg.Wait()
}

func (s *Server) loop() {
	defer s.wg.Done()
	buf := make([]byte, 2048)
	for {
		n, addr, err := s.conn.ReadFromUDP(buf)
		if err != nil {
			return
		}
		d := append([]byte(nil), buf[:n]...)
		s.mu.Lock()
		if s.closed {
			s.mu.Unlock()
			return
		}
		rx := s.BMC.Receive(d)
		s.Received++
		var out []Reply
		if s.Policy != nil {
			out = s.Policy(rx)
		} else {
			for _, o := range rx.Replies {
				out = append(out, Reply{Data: o.Data})
			}
			s.ValidSent += len(out)
		}
		s.mu.Unlock()
		for _, r := range out {
			if r.After > 0 {
				r := r
				time.AfterFunc(r.After, func() { s.conn.WriteToUDP(r.Data, addr) })
			} else {
				s.conn.WriteToUDP(r.Data, addr)
			}
		}
	}
}
