// C18: exported metrics account exactly for what happened.
package c18

import (
	"context"
	"fmt"
	"math"
	"sort"
	"strings"
	"testing"
	"time"

	"github.com/gebn/bmc"
	"github.com/gebn/bmc/pkg/dcmi"
	"github.com/gebn/bmc/pkg/ipmi"
	"github.com/prometheus/client_golang/prometheus"
	"pgregory.net/rapid"

	"verif/harness/evid"
	"verif/harness/hx"
	"verif/harness/memnet"
	"verif/harness/ref"
	"verif/harness/simbmc"
	"verif/harness/udpnet"
)

var ev *evid.E

func TestMain(m *testing.M) {
	ev = evid.New("C18", "exploration",
		"rapid state machine (own process) over a small fleet of connections - in-memory ones built through the verif hook for volume and retry-heavy scripts, and real UDP ones "+
			"dialled with DialV2 for the connection metrics - with operations: dial (ok / invalid address), close connection, open session (ok with one suite, ok with discovery, wrong "+
			"password, BMC status error), close session (ok / failing), command (success, non-zero final code, retried k times then success, failed by expiry, body decode failure). "+
			"After every step the deltas of all bmc_* counters and gauges read from prometheus.DefaultGatherer are compared with a model fed from the call outcomes and the transport's "+
			"transmission counts. Non-trivial = history with >= 1 failure and >= 1 retry; distinct by history")
	ev.Assume("histogram contents are not part of the property", "in-memory connections are never Close()d (the hook bypasses DialV2, so their gauge was never incremented)")
	evid.Main(m, ev)
}

// gather reads every bmc_* counter and gauge.
func gather() map[string]float64 {
	out := map[string]float64{}
	mfs, err := prometheus.DefaultGatherer.Gather()
	if err != nil {
		panic(err)
	}
	for _, mf := range mfs {
		if !strings.HasPrefix(mf.GetName(), "bmc_") {
			continue
		}
		for _, m := range mf.GetMetric() {
			var ls []string
			for _, l := range m.GetLabel() {
				ls = append(ls, l.GetName()+"="+l.GetValue())
			}
			sort.Strings(ls)
			key := mf.GetName() + "{" + strings.Join(ls, ",") + "}"
			switch {
			case m.Counter != nil:
				out[key] = m.Counter.GetValue()
			case m.Gauge != nil:
				out[key] = m.Gauge.GetValue()
			}
		}
	}
	return out
}

type model map[string]float64

func (m model) add(name string, labels string, v float64) { m[name+"{"+labels+"}"] += v }

type sessState struct {
	s      bmc.Session
	closed bool
}

type connState struct {
	udp  bool
	w    *hx.World       // in-memory
	srv  *udpnet.Server  // udp
	b    *simbmc.BMC
	t    *bmc.V2SessionlessTransport
	sc   *hx.Scripter
	sess []*sessState
	dead bool
}

func (c *connState) sends() int {
	if c.udp {
		c.srv.Lock()
		defer c.srv.Unlock()
		return c.srv.Received
	}
	return c.w.Net.Sends
}

func codeLabel(cc byte) string { return "code=" + ipmi.CompletionCode(cc).String() }

func TestMetrics(t *testing.T) {
	ev.Check(t, "TestMetrics", ev.PickN(300, 6000), func(t *rapid.T) {
		base := gather()
		m := model{}
		var conns []*connState
		var hist []string
		failures, retries, strays, doneCloses, setupRetx := 0, 0, 0, 0, 0
		creds := hx.Creds{User: "admin", Password: []byte("pw"), Priv: 4, Suite: ref.Suite{Auth: 1, Integ: 1, Conf: 1}}
		defer func() {
			for _, c := range conns {
				if c.udp && !c.dead {
					c.t.Close()
					c.srv.Close()
				} else if c.udp {
					c.srv.Close()
				}
			}
		}()
		check := func() {
			now := gather()
			keys := map[string]bool{}
			for k := range now {
				keys[k] = true
			}
			for k := range m {
				keys[k] = true
			}
			for k := range keys {
				got := now[k] - base[k]
				if math.Abs(got-m[k]) > 1e-9 {
					t.Fatalf("after %v:\n metric %s changed by %v, the history accounts for %v", hist, k, got, m[k])
				}
			}
		}
		pickConn := func(t *rapid.T, needLive bool) *connState {
			var live []*connState
			for _, c := range conns {
				if !c.dead {
					live = append(live, c)
				}
			}
			if len(live) == 0 {
				t.Skip("no connection")
			}
			return rapid.SampledFrom(live).Draw(t, "conn")
		}
		installScript := func(c *connState, script []hx.Outcome) {
			c.sc.Script, c.sc.Pos = script, 0
		}
		udpCount := 0
		t.Repeat(map[string]func(*rapid.T){
			"dialMem": func(t *rapid.T) {
				if len(conns) >= 4 {
					t.Skip("enough connections")
				}
				cr := creds
				cr.Seed = rapid.Uint64().Draw(t, "seed")
				w := hx.NewWorldFor(cr, true)
				w.BMC.SuiteRecords = append((&ref.SuiteRecord{ID: 17, Auth: 3, Integs: []byte{4}, Confs: []byte{1}}).Bytes(), (&ref.SuiteRecord{ID: 3, Auth: 1, Integs: []byte{1}, Confs: []byte{1}}).Bytes()...)
				installCaps(w.BMC)
				c := &connState{w: w, b: w.BMC, t: w.T, sc: &hx.Scripter{}}
				c.sc.Install(w.BMC)
				conns = append(conns, c)
				hist = append(hist, "dial(in-memory, hook: no connection metrics)")
			},
			"dialUDP": func(t *rapid.T) {
				if udpCount >= 2 || len(conns) >= 4 {
					t.Skip("enough UDP connections")
				}
				udpCount++
				b := simbmc.New(rapid.Uint64().Draw(t, "seed"))
				creds.Install(b)
				installCaps(b)
				srv, err := udpnet.Listen(b)
				if err != nil {
					t.Skip("cannot listen")
				}
				tr, err := bmc.DialV2(srv.Addr(), bmc.WithTimeout(3*time.Second))
				m.add("bmc_connection_open_attempts_total", "version=2.0", 1)
				if err != nil {
					t.Fatalf("DialV2 to a loopback address failed: %v", err)
				}
				m.add("bmc_connections_open", "version=2.0", 1)
				c := &connState{udp: true, srv: srv, b: b, t: tr, sc: &hx.Scripter{}}
				srv.Lock()
				c.sc.Install(b)
				srv.Unlock()
				conns = append(conns, c)
				hist = append(hist, "dial(udp)")
			},
			"dialBad": func(t *rapid.T) {
				addr := rapid.SampledFrom([]string{"127.0.0.1:notaport", "[::1", "127.0.0.1:99999", "::1", "fe80::1", "2001:db8::2:1", ":623:623", "::ffff:127.0.0.1"}).Draw(t, "addr")
				_, err := bmc.DialV2(addr)
				m.add("bmc_connection_open_attempts_total", "version=2.0", 1)
				if err == nil {
					t.Fatalf("DialV2(%q) succeeded", addr)
				}
				m.add("bmc_connection_open_failures_total", "version=2.0", 1)
				failures++
				hist = append(hist, "dial("+addr+") fails")
			},
			"closeConn": func(t *rapid.T) {
				var live []*connState
				for _, c := range conns {
					if c.udp && !c.dead {
						live = append(live, c)
					}
				}
				if len(live) == 0 {
					t.Skip("no UDP connection")
				}
				c := rapid.SampledFrom(live).Draw(t, "conn")
				c.t.Close()
				c.dead = true
				m.add("bmc_connections_open", "version=2.0", -1)
				hist = append(hist, "closeConn")
			},
			"openSession": func(t *rapid.T) {
				c := pickConn(t, true)
				if len(c.sess) >= 3 {
					t.Skip("enough sessions")
				}
				kind := rapid.SampledFrom([]string{"ok", "ok-discovery", "wrong-password", "status-error", "no-supported-suite", "bad-icv", "unusable-suite"}).Draw(t, "kind")
				if c.udp && (kind == "ok-discovery" || kind == "no-supported-suite") {
					kind = "ok"
				}
				opts := creds.Opts()
				lock := func() {}
				unlock := func() {}
				if c.udp {
					lock, unlock = c.srv.Lock, c.srv.Unlock
				}
				lock()
				installScript(c, nil)
				c.b.OpenOverride = nil
				switch kind {
				case "ok-discovery":
					opts.CipherSuites = nil
				case "no-supported-suite":
					// two acceptable suites, neither advertised: discovery, then the
					// no-supported-cipher-suite error
					opts.CipherSuites = []ipmi.CipherSuite{hx.LibSuite(ref.Suite{Auth: 2, Integ: 2, Conf: 1}), hx.LibSuite(ref.Suite{Auth: 1, Integ: 4, Conf: 1})}
				case "bad-icv":
					// the BMC holds a key-generating key the console does not know: RAKP2
					// verifies (it depends on the password only), the RAKP4 ICV does not
					c.b.KG = []byte("a BMC key the console lacks")[:20]
				case "unusable-suite":
					// the BMC accepts the suite and completes RAKP 1-4; only then does
					// the library find it cannot run a session under it
					opts.CipherSuites = []ipmi.CipherSuite{hx.LibSuite(ref.Suite{Auth: 1, Integ: 1, Conf: 0})}
				case "wrong-password":
					opts.Password = []byte("not the password")
				case "status-error":
					c.b.OpenOverride = func(b *simbmc.BMC, rx *simbmc.Rx, req *ref.OpenReq, def *ref.OpenRsp) *ref.OpenRsp {
						def.Status = 0x01
						return def
					}
				}
				discover := kind == "ok-discovery" || kind == "no-supported-suite"
				if !c.udp && (kind == "wrong-password" || kind == "status-error" || kind == "bad-icv") && rapid.Bool().Draw(t, "defaultSuites") {
					// the failing open may also be one that starts with discovery
					opts.CipherSuites = nil
					discover = true
				}
				// on in-memory connections the first replies to some of the session-setup
				// payloads are lost or unreadable, so the payload is transmitted again:
				// that is not a command retry and moves no command counter
				lossy := 0
				if !c.udp {
					lossy = rapid.IntRange(0, 7).Draw(t, "setupRepliesLost")
				}
				if lossy != 0 {
					inner := c.b.Intercept
					dropped := map[uint8]int{}
					c.b.Intercept = func(b *simbmc.BMC, rx *simbmc.Rx) {
						if rx.Pkt != nil && rx.Pkt.SessionID == 0 {
							for i, pt := range []uint8{ref.PTOpenReq, ref.PTRAKP1, ref.PTRAKP3} {
								if rx.Pkt.PayloadType == pt && lossy&(1<<uint(i)) != 0 && dropped[pt] < 1+i%2 {
									dropped[pt]++
									if dropped[pt]%2 == 0 {
										rx.Replies = []memnet.Out{{Data: []byte{0x06, 0x00, 0xff, 0x07, 0x06, 0x13, 0x01}}}
									} else {
										rx.Replies = nil
									}
									setupRetx++
									return
								}
							}
						}
						if inner != nil {
							inner(b, rx)
						}
					}
				}
				unlock()
				ctx, cancel := context.WithTimeout(context.Background(), 5*time.Second)
				if !c.udp {
					cancel()
					ctx, cancel = c.w.Ctx(40)
				}
				var s *bmc.V2Session
				var err error
				if len(opts.CipherSuites) == 0 && len(opts.KG) == 0 && !opts.PrivilegeLevelLookup && rapid.Bool().Draw(t, "viaNewSession") {
					// the version-agnostic entry point (what a caller holding a
					// SessionlessTransport uses) is an open like any other
					var st bmc.SessionlessTransport = c.t
					var si bmc.Session
					si, err = st.NewSession(ctx, &opts.SessionOpts)
					if err == nil {
						s, _ = si.(*bmc.V2Session)
					}
					ev.Label("open-via-NewSession:" + map[bool]string{true: "ok", false: "failed"}[err == nil])
				} else {
					s, err = c.t.NewV2Session(ctx, opts)
				}
				cancel()
				lock()
				c.b.OpenOverride = nil
				c.b.KG = nil
				if lossy != 0 {
					installScript(c, nil)
				}
				unlock()
				m.add("bmc_session_open_attempts_total", "", 1)
				if discover {
					// two 5-byte records fit one chunk: one Get Channel Cipher Suites command
					m.add("bmc_command_attempts_total", "command=Get Channel Cipher Suites", 1)
					m.add("bmc_command_responses_total", codeLabel(0), 1)
				}
				if strings.HasPrefix(kind, "ok") {
					if err != nil {
						t.Fatalf("session open (%s) failed: %v", kind, err)
					}
					m.add("bmc_sessions_open", "", 1)
					c.sess = append(c.sess, &sessState{s: s})
				} else {
					if err == nil {
						t.Fatalf("session open (%s) succeeded", kind)
					}
					m.add("bmc_session_open_failures_total", "", 1)
					failures++
				}
				hist = append(hist, "openSession("+kind+")")
			},
			"closeSession": func(t *rapid.T) {
				c := pickConn(t, true)
				var open []*sessState
				for _, s := range c.sess {
					if !s.closed {
						open = append(open, s)
					}
				}
				if len(open) == 0 {
					t.Skip("no open session")
				}
				s := rapid.SampledFrom(open).Draw(t, "session")
				failing := rapid.Bool().Draw(t, "failing")
				// a close whose context is already cancelled or past its deadline (e.g. a
				// deferred Close reusing the context an earlier call exhausted) still
				// counts as a close: an error is returned and the session is gone
				doneCtx := rapid.SampledFrom([]string{"", "", "cancelled", "deadline-passed"}).Draw(t, "doneContext")
				if c.udp && doneCtx == "cancelled" {
					// the UDP transport only observes deadlines: a cancelled context
					// without one still completes the exchange, which is an ordinary close
					doneCtx = "deadline-passed"
				}
				script := []hx.Outcome{hx.Final}
				if failing {
					script = []hx.Outcome{hx.FinalCC}
				}
				if c.udp {
					c.srv.Lock()
				}
				installScript(c, script)
				if c.udp {
					c.srv.Unlock()
				}
				ctx, cancel := context.WithTimeout(context.Background(), 5*time.Second)
				switch doneCtx {
				case "cancelled":
					cancel()
				case "deadline-passed":
					cancel()
					ctx, cancel = context.WithDeadline(context.Background(), time.Now().Add(-50*time.Millisecond))
				}
				before := c.sends()
				const closeAttempts = "bmc_command_attempts_total{command=Close Session}"
				attemptsBefore := gather()[closeAttempts]
				err := s.s.Close(ctx)
				cancel()
				s.closed = true
				m.add("bmc_sessions_open", "", -1)
				issued := true
				if doneCtx != "" && gather()[closeAttempts] == attemptsBefore {
					// with a context that is already done the library may return its
					// error without issuing Close Session at all: then no call was made
					// and neither an attempt nor a failure is due
					issued = false
				} else {
					m.add("bmc_command_attempts_total", "command=Close Session", 1)
				}
				switch {
				case doneCtx != "" && !issued:
					if err == nil {
						t.Fatalf("Close with a context that is already done (%s) returned nil", doneCtx)
					}
					if n := c.sends() - before; n != 0 {
						t.Fatalf("Close with a context that is already done (%s) transmitted %d datagrams", doneCtx, n)
					}
					doneCloses++
				case doneCtx != "":
					if err == nil {
						t.Fatalf("Close with a context that is already done (%s) returned nil", doneCtx)
					}
					if n := c.sends() - before; n != 0 {
						t.Fatalf("Close with a context that is already done (%s) transmitted %d datagrams", doneCtx, n)
					}
					m.add("bmc_command_failures_total", "command=Close Session", 1)
					failures++
					doneCloses++
				case failing:
					if err == nil {
						t.Fatalf("Close with completion code %#x returned nil", hx.FinalCCValue)
					}
					m.add("bmc_command_responses_total", codeLabel(hx.FinalCCValue), 1)
					failures++
				default:
					if err != nil {
						t.Fatalf("Close failed: %v", err)
					}
					m.add("bmc_command_responses_total", codeLabel(0), 1)
				}
				failing = failing && doneCtx == ""
				hist = append(hist, fmt.Sprintf("closeSession(failing=%v, context=%q)", failing, doneCtx))
			},
			"command": func(t *rapid.T) {
				c := pickConn(t, true)
				var cn interface {
					SendCommand(context.Context, ipmi.Command) (ipmi.CompletionCode, error)
				} = c.t
				inSession := false
				var open []*sessState
				for _, s := range c.sess {
					if !s.closed {
						open = append(open, s)
					}
				}
				if len(open) > 0 && rapid.Bool().Draw(t, "inSession") {
					cn, inSession = rapid.SampledFrom(open).Draw(t, "session").s, true
				}
				kind := rapid.SampledFrom([]string{"success", "final-cc", "retried", "expiry", "decode-failure"}).Draw(t, "kind")
				if c.udp && (kind == "retried" || kind == "expiry") {
					kind = "success" // real back-off would cost seconds per case
				}
				// a spread of command names, including the five DCMI capability
				// commands, which share one operation (NetFn, body, command) but
				// are distinct commands by name
				var cmd ipmi.Command
				hasBody := true
				switch rapid.IntRange(0, 9).Draw(t, "command") {
				case 0:
					cmd = &ipmi.GetDeviceIDCmd{}
				case 1:
					cmd, hasBody = &ipmi.ChassisControlCmd{Req: ipmi.ChassisControlReq{ChassisControl: ipmi.ChassisControlPowerOn}}, false
				case 2:
					cmd = &ipmi.GetSystemGUIDCmd{}
				case 3:
					cmd = &ipmi.GetChassisStatusCmd{}
				case 4:
					cmd = dcmi.NewGetDCMICapabilitiesInfoSupportedCapabilitiesCmd()
				case 5:
					cmd = dcmi.NewGetDCMICapabilitiesInfoMandatoryPlatformAttrsCmd()
				case 6:
					cmd = dcmi.NewGetDCMICapabilitiesInfoOptionalPlatformAttrsCmd()
				case 7:
					cmd = dcmi.NewGetDCMICapabilitiesInfoManageabilityAccessAttrsCmd()
				case 8:
					cmd = dcmi.NewGetDCMICapabilitiesInfoEnhancedSystemPowerStatisticsAttrsCmd()
				default:
					cmd = &dcmi.GetPowerReadingCmd{Req: dcmi.GetPowerReadingReq{Mode: dcmi.SystemPowerStatisticsModeNormal}}
				}
				var script []hx.Outcome
				switch kind {
				case "success":
					script = []hx.Outcome{hx.Final}
				case "final-cc":
					script = []hx.Outcome{hx.FinalCC}
				case "decode-failure":
					script = []hx.Outcome{hx.FinalTruncated}
				case "retried", "expiry":
					k := rapid.IntRange(1, 4).Draw(t, "k")
					for i := 0; i < k; i++ {
						o := rapid.SampledFrom([]hx.Outcome{hx.Busy, hx.TimeoutCC, hx.Garbage, hx.BadSig, hx.StrayOK, hx.StrayBusy, hx.StraySetup, hx.StrayASF}).Draw(t, "fault")
						if !inSession && o == hx.BadSig {
							o = hx.Garbage
						}
						script = append(script, o)
					}
					if kind == "retried" {
						script = append(script, hx.Final)
					}
				}
				if c.udp {
					c.srv.Lock()
				}
				installScript(c, script)
				if c.udp {
					c.srv.Unlock()
				}
				before := c.sends()
				var ctx context.Context
				var cancel context.CancelFunc
				if c.udp {
					ctx, cancel = context.WithTimeout(context.Background(), 5*time.Second)
				} else if kind == "expiry" {
					ctx, cancel = c.w.Ctx(len(script))
				} else {
					ctx, cancel = c.w.Ctx(len(script) + 3)
				}
				_, err := cn.SendCommand(ctx, cmd)
				cancel()
				n := c.sends() - before
				exp := hx.Model(script, inSession, hasBody)
				if n != exp.Transmissions || (err == nil) != exp.ErrNil {
					t.Fatalf("after %v: command %s script %s: %d transmissions err=%v, contract gives %d and error-free=%v", hist, cmd.Name(), hx.ScriptString(script), n, err, exp.Transmissions, exp.ErrNil)
				}
				m.add("bmc_command_attempts_total", "command="+cmd.Name(), 1)
				if err != nil {
					m.add("bmc_command_failures_total", "command="+cmd.Name(), 1)
					failures++
				}
				m.add("bmc_command_retries_total", "", float64(n-1))
				retries += n - 1
				for _, o := range script[:n] {
					switch o {
					case hx.Final, hx.FinalTruncated:
						m.add("bmc_command_responses_total", codeLabel(0), 1)
					case hx.FinalCC:
						m.add("bmc_command_responses_total", codeLabel(hx.FinalCCValue), 1)
					case hx.Busy:
						m.add("bmc_command_responses_total", codeLabel(0xC0), 1)
					case hx.TimeoutCC:
						m.add("bmc_command_responses_total", codeLabel(0xC3), 1)
					}
				}
				for _, o := range script[:n] {
					if o == hx.StrayOK || o == hx.StrayBusy {
						// a reply to some other command is not a valid response: it is
						// retried past and counted under no completion code
						strays++
					}
				}
				hist = append(hist, fmt.Sprintf("command(%s, inSession=%v, udp=%v, %s)", cmd.Name(), inSession, c.udp, hx.ScriptString(script)))
			},
			"": func(t *rapid.T) { check() },
		})
		check()
		ev.Eval()
		if failures > 0 && retries > 0 {
			ev.NonTrivial(fmt.Sprint(hist))
			ev.Label("history:failure+retry")
		}
		if udpCount > 0 {
			ev.Label("history:with-udp")
		}
		if strays > 0 {
			ev.Label("history:stray-reply-not-counted")
		}
		if doneCloses > 0 {
			ev.Label("history:close-with-done-context")
		}
		if setupRetx > 0 {
			ev.Label("history:setup-payload-retransmitted")
		}
		ev.Sample(map[string]any{"history": hist, "failures": failures, "retries": retries})
	})
}

// installCaps gives the BMC valid DCMI capability data for all five parameters.
func installCaps(b *simbmc.BMC) {
	b.Data.DCMICaps = map[byte][]byte{1: {1, 5, 2, 0, 1, 7}, 2: {1, 5, 2, 0x80, 1, 0, 0, 5}, 3: {1, 5, 2, 0x20, 0x12}, 4: {1, 5, 2, 1, 0xff, 0xff}, 5: {1, 5, 2, 2, 0x45, 0x81}}
}

func TestCoverage(t *testing.T) {
	ev.RequireLabels(t, 1, "history:failure+retry", "open-via-NewSession:ok", "open-via-NewSession:failed", "history:with-udp", "history:stray-reply-not-counted", "history:close-with-done-context", "history:setup-payload-retransmitted")
}
