// C20: primitive value conversions are correct on their entire domains.
// Everything is reached through exported API only.
package c20

import (
	"fmt"
	"testing"
	"time"

	"github.com/gebn/bmc/pkg/dcmi"
	"github.com/gebn/bmc/pkg/ipmi"
	"github.com/google/gopacket"

	"verif/harness/evid"
	"verif/harness/ref"
)

var ev *evid.E

func TestMain(m *testing.M) {
	ev = evid.New("C20", "exploration",
		"complete enumeration of each primitive's finite domain through exported API (BCD bytes, 8-bit one's/two's complement and unsigned parsers, 10-bit and 4-bit "+
			"two's complement via Full Sensor Record fields, IPMI checksums via Message serialise/decode, BCD-plus / packed 6-bit / 8-bit ID strings at every position for 0..31 "+
			"characters, rolling-average bytes <-> durations, entity instances); every enumerated point is non-trivial, distinct points counted with per-domain bitmaps")
	ev.Assume("BCD digits > 9 are unspecified: only 'no panic' is checked for them",
		"8-bit ID string bytes >= 0x80 may come back raw or as U+0080..U+00FF; only the number of consumed bytes and the ASCII half are asserted exactly",
		"durations are converted by the library's documented floor-to-largest-unit rule")
	ev.SetExhaustive(true)
	evid.Main(m, ev)
}

func fail(t *testing.T, name string, c any, msg string) {
	t.Helper()
	ev.Violation(name, c, msg)
	t.Fatalf("%s: %v: %s", name, c, msg)
}

func noPanic(t *testing.T, name string, c any, f func()) {
	t.Helper()
	defer func() {
		if r := recover(); r != nil {
			fail(t, name, c, fmt.Sprintf("panic: %v", r))
		}
	}()
	f()
}

func TestBCD(t *testing.T) {
	dom := ev.Domain("bcd-bytes-x3", 3*256)
	for v := 0; v < 256; v++ {
		x := byte(v)
		hi, lo := x>>4, x&0x0f
		valid := hi <= 9 && lo <= 9
		// Get Device ID minor firmware revision (byte 4 of the response)
		body := (&ref.DeviceID{}).Bytes()
		body[3] = x
		var g ipmi.GetDeviceIDRsp
		noPanic(t, "TestBCD", v, func() {
			if err := g.DecodeFromBytes(body, gopacket.NilDecodeFeedback); err != nil {
				fail(t, "TestBCD", v, "device ID decode: "+err.Error())
			}
		})
		if valid && g.MinorFirmwareRevision != hi*10+lo {
			fail(t, "TestBCD", v, fmt.Sprintf("minor firmware revision BCD %#x decoded as %d", x, g.MinorFirmwareRevision))
		}
		dom.Visit(v)
		// SDR header version: [3:0] major digit, [7:4] minor digit -> major*10+minor
		var s ipmi.SDR
		noPanic(t, "TestBCD", v, func() {
			if err := s.DecodeFromBytes([]byte{1, 0, x, 1, 0}, gopacket.NilDecodeFeedback); err != nil {
				fail(t, "TestBCD", v, "SDR decode: "+err.Error())
			}
		})
		if valid && s.Version != lo*10+hi {
			fail(t, "TestBCD", v, fmt.Sprintf("SDR version byte %#x decoded as %d", x, s.Version))
		}
		dom.Visit(256 + v)
		var ri ipmi.GetSDRRepositoryInfoRsp
		rb := (&ref.SDRRepoInfo{}).Bytes()
		rb[0] = x
		noPanic(t, "TestBCD", v, func() {
			if err := ri.DecodeFromBytes(rb, gopacket.NilDecodeFeedback); err != nil {
				fail(t, "TestBCD", v, "repo info decode: "+err.Error())
			}
		})
		if valid && ri.Version != lo*10+hi {
			fail(t, "TestBCD", v, fmt.Sprintf("repository version byte %#x decoded as %d", x, ri.Version))
		}
		dom.Visit(512 + v)
		ev.EvalN(3)
	}
	ev.Sample(map[string]any{"domain": "bcd", "example": "0x42 -> minor revision 42, SDR version 24"})
}

func TestAnalogParsers(t *testing.T) {
	dom := ev.Domain("analog-parsers-3x256", 3*256)
	for f := 0; f < 3; f++ {
		p, err := ipmi.AnalogDataFormat(f).Parser()
		if err != nil {
			fail(t, "TestAnalogParsers", f, "no parser: "+err.Error())
		}
		for v := 0; v < 256; v++ {
			var want int
			switch f {
			case 0:
				want = v
			case 1: // one's complement: negative values are the bitwise inverse
				if v&0x80 != 0 {
					want = -(^v & 0xff)
				} else {
					want = v
				}
			case 2:
				want = v
				if v >= 128 {
					want = v - 256
				}
			}
			got := int(p.Parse(byte(v)))
			ev.Eval()
			dom.Visit(f*256 + v)
			if got != want {
				fail(t, "TestAnalogParsers", map[string]int{"format": f, "raw": v}, fmt.Sprintf("parsed %d, want %d", got, want))
			}
		}
	}
	if _, err := ipmi.AnalogDataFormat(3).Parser(); err == nil {
		fail(t, "TestAnalogParsers", 3, "format 3 (no analog reading) has a parser")
	}
	ev.Sample(map[string]any{"domain": "analog", "example": "format 1 raw 0xFE -> -1; format 2 raw 0x80 -> -128"})
}

func tc(v int, bits uint) int {
	if v >= 1<<(bits-1) {
		return v - 1<<bits
	}
	return v
}

func TestTwosComplementFields(t *testing.T) {
	// 10-bit fields M, B, accuracy and 4-bit exponents of the Full Sensor
	// Record, other bits of the shared bytes cycling through all values.
	dom10 := ev.Domain("fsr-10bit-3x1024", 3*1024)
	dom4 := ev.Domain("fsr-4bit-2x16", 32)
	base := (&ref.FSR{ID: ref.IDString{Enc: ref.Enc6Bit}}).Body()
	noise := byte(0)
	for v := 0; v < 1024; v++ {
		for field := 0; field < 3; field++ {
			noise = noise*29 + 17
			b := append([]byte(nil), base...)
			switch field {
			case 0:
				b[19] = byte(v)
				b[20] = byte(v>>8)<<6 | noise&0x3f
			case 1:
				b[21] = byte(v)
				b[22] = byte(v>>8)<<6 | noise&0x3f
			case 2:
				b[22] = noise&0xc0 | byte(v)&0x3f
				b[23] = byte(v>>6)<<4 | noise&0x0f
			}
			var r ipmi.FullSensorRecord
			if err := r.DecodeFromBytes(b, gopacket.NilDecodeFeedback); err != nil {
				fail(t, "TestTwosComplementFields", v, "decode: "+err.Error())
			}
			got := []int{int(r.M), int(r.B), int(r.Accuracy)}[field]
			ev.Eval()
			dom10.Visit(field*1024 + v)
			if got != tc(v, 10) {
				fail(t, "TestTwosComplementFields", map[string]int{"field": field, "raw": v, "noise": int(noise)}, fmt.Sprintf("decoded %d, want %d", got, tc(v, 10)))
			}
		}
	}
	for v := 0; v < 16; v++ {
		for o := 0; o < 16; o++ {
			b := append([]byte(nil), base...)
			b[24] = byte(v)<<4 | byte(o)
			var r ipmi.FullSensorRecord
			if err := r.DecodeFromBytes(b, gopacket.NilDecodeFeedback); err != nil {
				fail(t, "TestTwosComplementFields", v, "decode: "+err.Error())
			}
			ev.Eval()
			dom4.Visit(v)
			dom4.Visit(16 + o)
			if int(r.RExp) != tc(v, 4) || int(r.BExp) != tc(o, 4) {
				fail(t, "TestTwosComplementFields", map[string]int{"k2": v, "k1": o}, fmt.Sprintf("decoded RExp %d BExp %d, want %d %d", r.RExp, r.BExp, tc(v, 4), tc(o, 4)))
			}
		}
	}
	ev.Sample(map[string]any{"domain": "10-bit", "example": "raw 0x3FF -> -1, raw 0x200 -> -512"})
}

var serOpts = gopacket.SerializeOptions{FixLengths: true, ComputeChecksums: true}

func TestChecksum(t *testing.T) {
	dom := ev.Domain("checksum-headers-65536", 65536)
	buf := gopacket.NewSerializeBuffer()
	// checksum 1 over every (address, NetFn/LUN) pair; checksum 2 over bodies
	// derived from the pair
	for a := 0; a < 256; a++ {
		for nl := 0; nl < 256; nl++ {
			m := ipmi.Message{
				Operation:     ipmi.Operation{Function: ipmi.NetworkFunction(nl >> 2), Command: ipmi.CommandNumber(a ^ nl)},
				RemoteAddress: ipmi.Address(a), RemoteLUN: ipmi.LUN(nl & 3),
				LocalAddress: ipmi.Address(nl), LocalLUN: ipmi.LUN(a & 3), Sequence: uint8(a & 0x3f),
				CompletionCode: ipmi.CompletionCode(a + nl),
			}
			body := make([]byte, (a+nl)%7)
			if nl%4 == 0 {
				// long bodies of large bytes: the sum wraps many times, whatever the
				// word size an implementation adds in
				body = make([]byte, 3+(a*5+nl)%78)
			}
			for i := range body {
				body[i] = byte(a*7 + nl*13 + i*31)
				if nl%8 == 0 {
					body[i] |= 0x80
				}
				if nl%16 == 0 {
					body[i] = 0xff - byte(i%3)
				}
			}
			buf.Clear()
			if err := gopacket.SerializeLayers(buf, serOpts, &m, gopacket.Payload(body)); err != nil {
				fail(t, "TestChecksum", []int{a, nl}, "serialise: "+err.Error())
			}
			w := buf.Bytes()
			ev.Eval()
			dom.Visit(a<<8 | nl)
			if w[0] != byte(a) || w[1] != byte(nl) {
				fail(t, "TestChecksum", []int{a, nl}, fmt.Sprintf("header bytes % x", w[:2]))
			}
			if w[2] != ref.Checksum(w[:2]) {
				fail(t, "TestChecksum", []int{a, nl}, fmt.Sprintf("checksum1 %#x, want %#x", w[2], ref.Checksum(w[:2])))
			}
			if w[len(w)-1] != ref.Checksum(w[3:len(w)-1]) {
				fail(t, "TestChecksum", []int{a, nl}, fmt.Sprintf("checksum2 %#x, want %#x over % x", w[len(w)-1], ref.Checksum(w[3:len(w)-1]), w[3:len(w)-1]))
			}
			// and a correctly checksummed message of any length is accepted
			if len(body) > 6 || (a+nl)%16 == 0 {
				var d ipmi.Message
				if err := d.DecodeFromBytes(append([]byte(nil), w...), gopacket.NilDecodeFeedback); err != nil && !(m.Function>>1 == 0x16 || m.Function>>1 == 0x17) {
					fail(t, "TestChecksum", []int{a, nl}, fmt.Sprintf("correctly checksummed message of %d bytes rejected: %v", len(w), err))
				}
			}
		}
	}
	// the decoder accepts exactly one of the 256 values of each checksum
	domd := ev.Domain("checksum-decoder-acceptance", 2*256*16)
	for k := 0; k < 16; k++ {
		msg := (&ref.Msg{RsAddr: byte(0x81 + k), NetFn: byte(7+2*k)&0x3f | 1, RqAddr: 0x20, RqSeq: byte(k), Cmd: byte(k * 9), CC: byte(k), Data: []byte{byte(k), byte(k * 3), 0xff}[:k%4]}).Bytes()
		if (msg[1]>>2) == 0x2d || (msg[1]>>2) == 0x2f {
			msg = (&ref.Msg{RsAddr: 0x81, NetFn: 7, RqAddr: 0x20, Cmd: byte(k), Data: []byte{1, 2, 3}}).Bytes()
		}
		for which := 0; which < 2; which++ {
			pos := 2
			if which == 1 {
				pos = len(msg) - 1
			}
			accepted := 0
			for v := 0; v < 256; v++ {
				b := append([]byte(nil), msg...)
				b[pos] = byte(v)
				var m ipmi.Message
				err := m.DecodeFromBytes(b, gopacket.NilDecodeFeedback)
				ev.Eval()
				domd.Visit((k*2+which)*256 + v)
				if err == nil {
					accepted++
					if byte(v) != msg[pos] {
						fail(t, "TestChecksum", map[string]any{"msg": fmt.Sprintf("%x", msg), "pos": pos, "value": v}, "message with a wrong checksum was accepted")
					}
				}
			}
			if accepted != 1 {
				fail(t, "TestChecksum", map[string]any{"msg": fmt.Sprintf("%x", msg), "pos": pos}, fmt.Sprintf("%d checksum values accepted, want exactly 1", accepted))
			}
		}
	}
	ev.Sample(map[string]any{"domain": "checksum", "example": "bytes 20 18 -> checksum C8"})
}

func TestIDStrings(t *testing.T) {
	type enc struct {
		e     byte
		codes int
	}
	for _, en := range []enc{{ref.EncBCDPlus, 16}, {ref.Enc6Bit, 64}, {ref.Enc8Bit, 256}, {ref.EncUnicode, 256}} {
		dec, err := ipmi.StringEncoding(en.e).Decoder()
		if err != nil {
			fail(t, "TestIDStrings", en.e, "no decoder: "+err.Error())
		}
		dom := ev.Domain(fmt.Sprintf("idstring-enc%d-len-pos-code", en.e), 32*32*en.codes)
		for n := 0; n <= 31; n++ {
			if (en.e == ref.Enc8Bit || en.e == ref.EncUnicode) && n == 1 {
				continue // reserved by the specification
			}
			if n == 0 {
				// the empty string: zero bytes consumed, with and without data following
				for _, tail := range [][]byte{nil, {0x41}, {0x41, 0x42, 0x43}} {
					var got string
					var used int
					var err error
					noPanic(t, "TestIDStrings", n, func() { got, used, err = dec.Decode(tail, 0) })
					ev.Eval()
					if err != nil || got != "" || used != 0 {
						fail(t, "TestIDStrings", map[string]any{"enc": en.e, "chars": 0, "following": fmt.Sprintf("%x", tail)},
							fmt.Sprintf("empty string decoded as (%q, %d, %v), want (\"\", 0, nil)", got, used, err))
					}
				}
				continue
			}
			for pos := 0; pos < n; pos++ {
				for code := 0; code < en.codes; code++ {
					s := ref.IDString{Enc: en.e, Codes: make([]byte, n)}
					for i := range s.Codes {
						// background pattern differs from the probed code
						s.Codes[i] = byte((i*5 + 3) % en.codes)
						if en.e >= ref.Enc8Bit || en.e == ref.EncUnicode {
							s.Codes[i] = byte(0x30 + i%40)
						}
					}
					s.Codes[pos] = byte(code)
					wire := s.Bytes()
					exact := make([]byte, len(wire))
					copy(exact, wire)
					var got string
					var used int
					var err error
					noPanic(t, "TestIDStrings", n, func() { got, used, err = dec.Decode(exact[:len(exact):len(exact)], n) })
					ev.Eval()
					dom.Visit((n*32+pos)*en.codes + code)
					c := map[string]any{"enc": en.e, "chars": n, "pos": pos, "code": code, "wire": fmt.Sprintf("%x", wire)}
					if err != nil {
						fail(t, "TestIDStrings", c, "decode error: "+err.Error())
					}
					if used != len(wire) {
						fail(t, "TestIDStrings", c, fmt.Sprintf("consumed %d bytes, want %d", used, len(wire)))
					}
					want := string(s.Runes())
					if got != want {
						// bytes >= 0x80: the raw byte string is the library's documented reading
						if (en.e == ref.Enc8Bit || en.e == ref.EncUnicode) && code >= 0x80 && got == string(s.Codes) {
							continue
						}
						fail(t, "TestIDStrings", c, fmt.Sprintf("decoded %q, want %q", got, want))
					}
				}
			}
		}
	}
	// the same strings where they actually occur: as the last field of a Full
	// Sensor Record that ends with the string (exact-capacity slice) or is
	// followed by further bytes
	for _, en := range []enc{{ref.EncBCDPlus, 16}, {ref.Enc6Bit, 64}, {ref.Enc8Bit, 256}, {ref.EncUnicode, 256}} {
		for n := 0; n <= 31; n++ {
			if (en.e == ref.Enc8Bit || en.e == ref.EncUnicode) && n == 1 {
				continue
			}
			s := ref.IDString{Enc: en.e, Codes: make([]byte, n)}
			for i := range s.Codes {
				s.Codes[i] = byte((i*7 + 1) % en.codes)
				if en.e == ref.Enc8Bit || en.e == ref.EncUnicode {
					s.Codes[i] = byte(0x41 + i%26)
				}
			}
			for _, trailing := range []int{0, 1, 5} {
				f := ref.FSR{Number: byte(n), M: 1, ID: s, Trailing: make([]byte, trailing)}
				body := f.Body()
				var r ipmi.FullSensorRecord
				var err error
				noPanic(t, "TestIDStrings", n, func() { err = r.DecodeFromBytes(body[:len(body):len(body)], gopacket.NilDecodeFeedback) })
				ev.Eval()
				c := map[string]any{"enc": en.e, "chars": n, "trailingBytes": trailing, "where": "Full Sensor Record"}
				if err != nil {
					fail(t, "TestIDStrings", c, "record with this ID string does not decode: "+err.Error())
				}
				if want := string(s.Runes()); r.Identity != want {
					fail(t, "TestIDStrings", c, fmt.Sprintf("Identity %q, want %q", r.Identity, want))
				}
				ev.NonTrivial(fmt.Sprintf("idfsr|%d|%d|%d", en.e, n, trailing))
			}
		}
	}
	ev.Sample(map[string]any{"domain": "idstring", "example": "6-bit codes [0x21 0x22] -> \"AB\" packed as 61 08"})
}

func TestRollingAverage(t *testing.T) {
	// byte -> duration, through the capabilities response (parameter 5)
	domb := ev.Domain("rolling-avg-bytes", 256)
	for v := 0; v < 256; v++ {
		var r dcmi.GetDCMICapabilitiesInfoEnhancedSystemPowerStatisticsAttrsRsp
		if err := r.DecodeFromBytes([]byte{1, 5, 2, 1, byte(v)}, gopacket.NilDecodeFeedback); err != nil {
			fail(t, "TestRollingAverage", v, "decode: "+err.Error())
		}
		ev.Eval()
		domb.Visit(v)
		want := time.Duration(ref.RollingAvgSeconds(byte(v))) * time.Second
		if len(r.PowerRollingAvgTimePeriods) != 1 || r.PowerRollingAvgTimePeriods[0] != want {
			fail(t, "TestRollingAverage", v, fmt.Sprintf("byte %#x decoded as %v, want %v", v, r.PowerRollingAvgTimePeriods, want))
		}
	}
	// duration -> byte, through the Get Power Reading request
	const limit = 64 * 86400
	domd := ev.Domain("rolling-avg-seconds-0..64d", limit+1)
	buf := gopacket.NewSerializeBuffer()
	check := func(sec int64) {
		req := dcmi.GetPowerReadingReq{Mode: dcmi.SystemPowerStatisticsModeEnhanced, Period: time.Duration(sec) * time.Second}
		buf.Clear()
		if err := req.SerializeTo(buf, serOpts); err != nil {
			fail(t, "TestRollingAverage", sec, "serialise: "+err.Error())
		}
		b := buf.Bytes()
		ev.Eval()
		domd.Visit(int(sec))
		if len(b) != 3 || b[0] != 2 || b[2] != 0 || b[1] != ref.RollingAvgByte(sec) {
			fail(t, "TestRollingAverage", sec, fmt.Sprintf("%d s serialised as % x, want period byte %#x", sec, b, ref.RollingAvgByte(sec)))
		}
	}
	if ev.Thorough() {
		for s := int64(0); s <= limit; s++ {
			check(s)
		}
	} else {
		stride := int64(7 + ev.Seed%5)
		for s := int64(0); s <= limit; s += stride {
			check(s)
		}
		// every unit boundary and its neighbours
		for _, u := range []int64{60, 3600, 86400} {
			for k := int64(1); k <= 64; k++ {
				for d := int64(-2); d <= 2; d++ {
					if s := u*k + d; s >= 0 && s <= limit {
						check(s)
					}
				}
			}
		}
		for s := int64(0); s < 7300; s++ {
			check(s)
		}
	}
	// normal mode ignores the period
	req := dcmi.GetPowerReadingReq{Mode: dcmi.SystemPowerStatisticsModeNormal, Period: 90 * time.Second}
	buf.Clear()
	req.SerializeTo(buf, serOpts)
	if b := buf.Bytes(); len(b) != 3 || b[0] != 1 || b[1] != 0 || b[2] != 0 {
		fail(t, "TestRollingAverage", "normal", fmt.Sprintf("normal mode serialised as % x", b))
	}
	ev.Sample(map[string]any{"domain": "rolling average", "example": "byte 0x45 -> 5 min; 7200 s -> 0x82"})
}

func TestEntityInstance(t *testing.T) {
	dom := ev.Domain("entity-instances", 128)
	base := (&ref.FSR{ID: ref.IDString{Enc: ref.Enc6Bit}}).Body()
	for v := 0; v < 128; v++ {
		for _, logical := range []byte{0, 0x80} {
			b := append([]byte(nil), base...)
			b[4] = logical | byte(v)
			var r ipmi.FullSensorRecord
			if err := r.DecodeFromBytes(b, gopacket.NilDecodeFeedback); err != nil {
				fail(t, "TestEntityInstance", v, "decode: "+err.Error())
			}
			ev.Eval()
			dom.Visit(v)
			i := r.Instance
			if int(i) != v || i.IsSystemRelative() != (v <= 0x5f) || i.IsDeviceRelative() != (v >= 0x60) || r.IsContainerEntity != (logical != 0) {
				fail(t, "TestEntityInstance", v, fmt.Sprintf("instance %d: system-relative %v device-relative %v container %v", i, i.IsSystemRelative(), i.IsDeviceRelative(), r.IsContainerEntity))
			}
		}
	}
	ev.Sample(map[string]any{"domain": "entity instance", "example": "0x5f system-relative, 0x60 device-relative"})
}
