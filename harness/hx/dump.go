package hx

import (
	"fmt"
	"reflect"
	"sort"
	"strings"
)

// Dump renders the exported, value-like fields of a layer deterministically:
// byte slices by content (nil and empty alike), nested structs recursively;
// interfaces, functions, channels and pointers are skipped (hash instances and
// ciphers are configuration, not decoded values).
func Dump(v any) string {
	var sb strings.Builder
	dump(&sb, reflect.ValueOf(v), 0)
	return sb.String()
}

func dump(sb *strings.Builder, v reflect.Value, depth int) {
	if depth > 6 {
		return
	}
	switch v.Kind() {
	case reflect.Ptr:
		if v.IsNil() {
			sb.WriteString("nil")
			return
		}
		if depth == 0 {
			dump(sb, v.Elem(), depth+1)
		}
	case reflect.Struct:
		sb.WriteString("{")
		t := v.Type()
		for i := 0; i < v.NumField(); i++ {
			f := t.Field(i)
			if f.PkgPath != "" { // unexported
				continue
			}
			switch f.Type.Kind() {
			case reflect.Interface, reflect.Func, reflect.Chan, reflect.UnsafePointer, reflect.Ptr:
				continue
			}
			fmt.Fprintf(sb, "%s:", f.Name)
			dump(sb, v.Field(i), depth+1)
			sb.WriteString(" ")
		}
		sb.WriteString("}")
	case reflect.Slice, reflect.Array:
		if v.Kind() == reflect.Slice && v.Len() == 0 {
			sb.WriteString("[]")
			return
		}
		if v.Type().Elem().Kind() == reflect.Uint8 {
			sb.WriteString("x")
			for i := 0; i < v.Len(); i++ {
				fmt.Fprintf(sb, "%02x", v.Index(i).Uint())
			}
			return
		}
		sb.WriteString("[")
		for i := 0; i < v.Len(); i++ {
			dump(sb, v.Index(i), depth+1)
			sb.WriteString(",")
		}
		sb.WriteString("]")
	case reflect.Map:
		keys := v.MapKeys()
		ks := make([]string, len(keys))
		for i, k := range keys {
			ks[i] = fmt.Sprint(k.Interface())
		}
		sort.Strings(ks)
		fmt.Fprintf(sb, "map%v", ks)
	case reflect.String:
		fmt.Fprintf(sb, "%q", v.String())
	case reflect.Interface, reflect.Func, reflect.Chan, reflect.UnsafePointer:
	default:
		if v.CanInterface() {
			// avoid String() methods (time.Time in local zone etc.): print the raw kind value
			switch v.Kind() {
			case reflect.Bool:
				fmt.Fprintf(sb, "%v", v.Bool())
			case reflect.Int, reflect.Int8, reflect.Int16, reflect.Int32, reflect.Int64:
				fmt.Fprintf(sb, "%d", v.Int())
			case reflect.Uint, reflect.Uint8, reflect.Uint16, reflect.Uint32, reflect.Uint64, reflect.Uintptr:
				fmt.Fprintf(sb, "%d", v.Uint())
			case reflect.Float32, reflect.Float64:
				fmt.Fprintf(sb, "%v", v.Float())
			default:
				fmt.Fprintf(sb, "%v", v.Interface())
			}
		}
	}
}
