package hx

import (
	"bytes"
	"fmt"

	"github.com/gebn/bmc/pkg/dcmi"
	"github.com/gebn/bmc/pkg/ipmi"
	"github.com/google/gopacket"
	"pgregory.net/rapid"

	"verif/harness/ref"
)

// dcase is one generated decode case.
type DCase struct {
	Name  string
	Wire  []byte
	Min   int // minimum body length the specification allows for this variant
	Fresh func() gopacket.DecodingLayer
	Cmp   func(l gopacket.DecodingLayer) error
	// mustReject, if set, says whether a body cut to this length (< min) is
	// still below every form the specification (and the library's documented
	// short forms) allows; nil means every shorter length must be rejected
}

// PendingReject, if set by genCase, says whether a body cut to this length
// (< min) must still be rejected; it covers the library's documented short
// forms. nil means every shorter length must be rejected.
var PendingReject func(cut int) bool

func GenResponseCase(t *rapid.T) DCase {
	switch rapid.IntRange(0, 19).Draw(t, "layer") {
	case 0:
		d := GenDeviceID().Draw(t, "v")
		return DCase{"GetDeviceIDRsp", d.Bytes(), 11, func() gopacket.DecodingLayer { return &ipmi.GetDeviceIDRsp{} },
			func(l gopacket.DecodingLayer) error { return CmpDeviceID(&d, l.(*ipmi.GetDeviceIDRsp)) }}
	case 1:
		g := rapid.SliceOfN(rapid.Byte(), 16, 16).Draw(t, "guid")
		return DCase{"GetSystemGUIDRsp", g, 16, func() gopacket.DecodingLayer { return &ipmi.GetSystemGUIDRsp{} },
			func(l gopacket.DecodingLayer) error {
				if got := l.(*ipmi.GetSystemGUIDRsp).GUID; !bytes.Equal(got[:], g) {
					return fmt.Errorf("GUID %x want %x", got, g)
				}
				return nil
			}}
	case 2:
		d := GenChanAuthCap().Draw(t, "v")
		return DCase{"GetChannelAuthenticationCapabilitiesRsp", d.Bytes(), 8, func() gopacket.DecodingLayer { return &ipmi.GetChannelAuthenticationCapabilitiesRsp{} },
			func(l gopacket.DecodingLayer) error {
				return CmpChanAuthCap(&d, l.(*ipmi.GetChannelAuthenticationCapabilitiesRsp))
			}}
	case 3:
		d := GenSessionInfo().Draw(t, "v")
		return DCase{fmt.Sprintf("GetSessionInfoRsp/%d", d.Form), d.Bytes(), 3, func() gopacket.DecodingLayer { return &ipmi.GetSessionInfoRsp{} },
			func(l gopacket.DecodingLayer) error { return CmpSessionInfo(&d, l.(*ipmi.GetSessionInfoRsp)) }}
	case 4:
		d := GenChassisStatus().Draw(t, "v")
		return DCase{fmt.Sprintf("GetChassisStatusRsp/%d", len(d.Bytes())), d.Bytes(), 3, func() gopacket.DecodingLayer { return &ipmi.GetChassisStatusRsp{} },
			func(l gopacket.DecodingLayer) error { return CmpChassisStatus(&d, l.(*ipmi.GetChassisStatusRsp)) }}
	case 5:
		d := GenSDRRepoInfo().Draw(t, "v")
		return DCase{"GetSDRRepositoryInfoRsp", d.Bytes(), 14, func() gopacket.DecodingLayer { return &ipmi.GetSDRRepositoryInfoRsp{} },
			func(l gopacket.DecodingLayer) error { return CmpSDRRepoInfo(&d, l.(*ipmi.GetSDRRepositoryInfoRsp)) }}
	case 6:
		id := rapid.Uint16().Draw(t, "reservation")
		return DCase{"ReserveSDRRepositoryRsp", []byte{byte(id), byte(id >> 8)}, 2, func() gopacket.DecodingLayer { return &ipmi.ReserveSDRRepositoryRsp{} },
			func(l gopacket.DecodingLayer) error {
				if got := uint16(l.(*ipmi.ReserveSDRRepositoryRsp).ReservationID); got != id {
					return fmt.Errorf("reservation %#x want %#x", got, id)
				}
				return nil
			}}
	case 7:
		next := rapid.Uint16().Draw(t, "next")
		data := rapid.SliceOfN(rapid.Byte(), 0, 64).Draw(t, "data")
		return DCase{"GetSDRRsp", append([]byte{byte(next), byte(next >> 8)}, data...), 2, func() gopacket.DecodingLayer { return &ipmi.GetSDRRsp{} },
			func(l gopacket.DecodingLayer) error {
				g := l.(*ipmi.GetSDRRsp)
				if uint16(g.Next) != next || !bytes.Equal(g.LayerPayload(), data) {
					return fmt.Errorf("next %#x data %x; want %#x %x", g.Next, g.LayerPayload(), next, data)
				}
				return nil
			}}
	case 8:
		id, typ, rem := rapid.Uint16().Draw(t, "id"), rapid.Byte().Draw(t, "type"), rapid.Byte().Draw(t, "remaining")
		maj, mnr := byte(rapid.IntRange(0, 9).Draw(t, "maj")), byte(rapid.IntRange(0, 9).Draw(t, "min"))
		tail := rapid.SliceOfN(rapid.Byte(), 0, 20).Draw(t, "tail")
		return DCase{"SDR", append(ref.SDRHeader(id, maj, mnr, typ, rem), tail...), 5, func() gopacket.DecodingLayer { return &ipmi.SDR{} },
			func(l gopacket.DecodingLayer) error {
				g := l.(*ipmi.SDR)
				if uint16(g.ID) != id || g.Version != maj*10+mnr || uint8(g.Type) != typ || g.Length != rem || !bytes.Equal(g.LayerPayload(), tail) {
					return fmt.Errorf("got %+v payload %x; want id %#x version %d type %#x len %d payload %x", g, g.LayerPayload(), id, maj*10+mnr, typ, rem, tail)
				}
				return nil
			}}
	case 9, 10:
		f := GenFSR().Draw(t, "v")
		return DCase{fmt.Sprintf("FullSensorRecord/enc%d", f.ID.Enc), f.Body(), 43, func() gopacket.DecodingLayer { return &ipmi.FullSensorRecord{} },
			func(l gopacket.DecodingLayer) error { return CmpFSR(&f, l.(*ipmi.FullSensorRecord)) }}
	case 11:
		d := GenSensorReading().Draw(t, "v")
		return DCase{fmt.Sprintf("GetSensorReadingRsp/%d", len(d.Bytes())), d.Bytes(), 3, func() gopacket.DecodingLayer { return &ipmi.GetSensorReadingRsp{} },
			func(l gopacket.DecodingLayer) error { return CmpSensorReading(&d, l.(*ipmi.GetSensorReadingRsp)) }}
	case 12:
		lvl := byte(rapid.IntRange(0, 15).Draw(t, "level"))
		return DCase{"SetSessionPrivilegeLevelRsp", []byte{lvl}, 1, func() gopacket.DecodingLayer { return &ipmi.SetSessionPrivilegeLevelRsp{} },
			func(l gopacket.DecodingLayer) error {
				if got := byte(l.(*ipmi.SetSessionPrivilegeLevelRsp).PrivilegeLevel); got != lvl {
					return fmt.Errorf("level %d want %d", got, lvl)
				}
				return nil
			}}
	case 13:
		ch := byte(rapid.IntRange(0, 15).Draw(t, "channel"))
		chunk := rapid.SliceOfN(rapid.Byte(), 0, 16).Draw(t, "chunk")
		return DCase{"GetChannelCipherSuitesRsp", append([]byte{ch}, chunk...), 1, func() gopacket.DecodingLayer { return &ipmi.GetChannelCipherSuitesRsp{} },
			func(l gopacket.DecodingLayer) error {
				g := l.(*ipmi.GetChannelCipherSuitesRsp)
				if byte(g.Channel) != ch || !bytes.Equal(g.CipherSuiteRecordsChunk, chunk) {
					return fmt.Errorf("channel %d chunk %x; want %d %x", g.Channel, g.CipherSuiteRecordsChunk, ch, chunk)
				}
				return nil
			}}
	case 14:
		r := ref.OpenRsp{Tag: rapid.Byte().Draw(t, "tag"), Priv: byte(rapid.IntRange(0, 5).Draw(t, "priv")), SIDM: rapid.Uint32().Draw(t, "sidm"), SIDC: rapid.Uint32().Draw(t, "sidc")}
		for i := range r.Algs {
			r.Algs[i] = byte(rapid.IntRange(0, 0x3f).Draw(t, "alg"))
		}
		if rapid.IntRange(0, 3).Draw(t, "errForm") == 0 {
			r.Status = byte(rapid.IntRange(1, 255).Draw(t, "status"))
		}
		osMin, osReject := 36, func(cut int) bool { return cut != 1 || r.Tag == 0 } // a lone byte is the documented status-only form
		if r.Status != 0 {
			osMin = 7
		}
		PendingReject = osReject
		return DCase{Name: fmt.Sprintf("OpenSessionRsp/status0=%v", r.Status == 0), Wire: r.Bytes(), Min: osMin, Fresh: func() gopacket.DecodingLayer { return &ipmi.OpenSessionRsp{} },
			Cmp: func(l gopacket.DecodingLayer) error {
				g := l.(*ipmi.OpenSessionRsp)
				if g.Tag != r.Tag || byte(g.Status) != r.Status || g.RemoteConsoleSessionID != r.SIDM {
					return fmt.Errorf("tag/status/console ID %d %d %#x; want %d %d %#x", g.Tag, g.Status, g.RemoteConsoleSessionID, r.Tag, r.Status, r.SIDM)
				}
				if r.Status == 0 && (byte(g.MaxPrivilegeLevel) != r.Priv || g.ManagedSystemSessionID != r.SIDC || byte(g.AuthenticationPayload.Algorithm) != r.Algs[0] ||
					byte(g.IntegrityPayload.Algorithm) != r.Algs[1] || byte(g.ConfidentialityPayload.Algorithm) != r.Algs[2]) {
					return fmt.Errorf("got %+v want %+v", g, r)
				}
				return nil
			}}
	case 15:
		r := ref.RAKP2{Tag: rapid.Byte().Draw(t, "tag"), SIDM: rapid.Uint32().Draw(t, "sidm")}
		copy(r.RC[:], rapid.SliceOfN(rapid.Byte(), 16, 16).Draw(t, "rc"))
		copy(r.GUID[:], rapid.SliceOfN(rapid.Byte(), 16, 16).Draw(t, "guid"))
		r.Code = rapid.SliceOfN(rapid.Byte(), 0, 32).Draw(t, "code")
		min := 40
		if rapid.IntRange(0, 3).Draw(t, "errForm") == 0 {
			r.Status = byte(rapid.IntRange(1, 255).Draw(t, "status"))
			min = 8
		}
		return DCase{fmt.Sprintf("RAKPMessage2/status0=%v", r.Status == 0), r.Bytes(), min, func() gopacket.DecodingLayer { return &ipmi.RAKPMessage2{} },
			func(l gopacket.DecodingLayer) error {
				g := l.(*ipmi.RAKPMessage2)
				if g.Tag != r.Tag || byte(g.Status) != r.Status || g.RemoteConsoleSessionID != r.SIDM {
					return fmt.Errorf("tag/status/console ID differ: %+v", g)
				}
				if r.Status == 0 && (g.ManagedSystemRandom != r.RC || g.ManagedSystemGUID != r.GUID || !bytes.Equal(g.AuthCode, r.Code)) {
					return fmt.Errorf("random/GUID/code differ: %+v want %+v", g, r)
				}
				return nil
			}}
	case 16:
		r := ref.RAKP4{Tag: rapid.Byte().Draw(t, "tag"), SIDM: rapid.Uint32().Draw(t, "sidm"), ICV: rapid.SliceOfN(rapid.Byte(), 0, 32).Draw(t, "icv")}
		if rapid.IntRange(0, 3).Draw(t, "errForm") == 0 {
			r.Status = byte(rapid.IntRange(1, 255).Draw(t, "status"))
		}
		return DCase{fmt.Sprintf("RAKPMessage4/status0=%v", r.Status == 0), r.Bytes(), 8, func() gopacket.DecodingLayer { return &ipmi.RAKPMessage4{} },
			func(l gopacket.DecodingLayer) error {
				g := l.(*ipmi.RAKPMessage4)
				if g.Tag != r.Tag || byte(g.Status) != r.Status || g.RemoteConsoleSessionID != r.SIDM || (r.Status == 0 && !bytes.Equal(g.ICV, r.ICV)) {
					return fmt.Errorf("got %+v want %+v", g, r)
				}
				return nil
			}}
	case 17:
		param := byte(rapid.IntRange(1, 5).Draw(t, "param"))
		c := GenDCMICaps(param).Draw(t, "caps")
		capMin := len(c.Bytes())
		if param == 2 {
			capMin = 3 + 4 // a 4-byte parameter body is read as the v1.0 form (documented)
		}
		// every Fresh() is a new command value (and so a new response layer); the
		// comparator belonging to a layer is found through the layer
		checks := map[gopacket.DecodingLayer]func() error{}
		return DCase{fmt.Sprintf("DCMICaps/param%d/v1.%d", param, c.Minor), c.Bytes(), capMin,
			func() gopacket.DecodingLayer {
				cmd, check, _ := c.Command()
				l := cmd.Response().(gopacket.DecodingLayer)
				checks[l] = check
				return l
			},
			func(l gopacket.DecodingLayer) error {
				check, ok := checks[l]
				if !ok {
					return fmt.Errorf("harness: layer %p was not made by this case", l)
				}
				return check()
			}}
	case 18:
		d := GenDCMIPower().Draw(t, "v")
		return DCase{"GetPowerReadingRsp", d.Bytes(), 17, func() gopacket.DecodingLayer { return &dcmi.GetPowerReadingRsp{} },
			func(l gopacket.DecodingLayer) error { return CmpDCMIPower(&d, l.(*dcmi.GetPowerReadingRsp)) }}
	default:
		n := rapid.IntRange(0, 8).Draw(t, "ids")
		d := ref.DCMISensorInfo{Total: rapid.Byte().Draw(t, "total"), IDs: rapid.SliceOfN(rapid.Uint16(), n, n).Draw(t, "idlist")}
		return DCase{"GetDCMISensorInfoRsp", d.Bytes(), len(d.Bytes()), func() gopacket.DecodingLayer { return &dcmi.GetDCMISensorInfoRsp{} },
			func(l gopacket.DecodingLayer) error { return CmpDCMISensorInfo(&d, l.(*dcmi.GetDCMISensorInfoRsp)) }}
	}
}
