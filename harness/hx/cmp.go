package hx

import (
	"bytes"
	"fmt"
	"time"

	"github.com/gebn/bmc/pkg/dcmi"
	"github.com/gebn/bmc/pkg/ipmi"

	"verif/harness/ref"
)

// diff accumulates field mismatches.
type diff struct{ errs []string }

func (d *diff) eq(name string, got, want any) {
	if fmt.Sprint(got) != fmt.Sprint(want) {
		d.errs = append(d.errs, fmt.Sprintf("%s: got %v, want %v", name, got, want))
	}
}

func (d *diff) err() error {
	if len(d.errs) == 0 {
		return nil
	}
	return fmt.Errorf("%v", d.errs)
}

func CmpDeviceID(w *ref.DeviceID, g *ipmi.GetDeviceIDRsp) error {
	d := &diff{}
	d.eq("ID", g.ID, w.ID)
	d.eq("ProvidesSDRs", g.ProvidesSDRs, w.ProvidesSDRs)
	d.eq("Revision", g.Revision, w.Rev)
	d.eq("Available", g.Available, !w.Unavailable)
	d.eq("MajorFirmwareRevision", g.MajorFirmwareRevision, w.FwMajor)
	d.eq("MinorFirmwareRevision", g.MinorFirmwareRevision, w.FwMinor)
	d.eq("MajorIPMIVersion", g.MajorIPMIVersion, w.IPMIMajor)
	d.eq("MinorIPMIVersion", g.MinorIPMIVersion, w.IPMIMinor)
	d.eq("SupportsChassisDevice", g.SupportsChassisDevice, w.Chassis)
	d.eq("SupportsBridgeDevice", g.SupportsBridgeDevice, w.Bridge)
	d.eq("SupportsIPMBEventGeneratorDevice", g.SupportsIPMBEventGeneratorDevice, w.EvtGen)
	d.eq("SupportsIPMBEventReceiverDevice", g.SupportsIPMBEventReceiverDevice, w.EvtRcv)
	d.eq("SupportsFRUInventoryDevice", g.SupportsFRUInventoryDevice, w.FRU)
	d.eq("SupportsSELDevice", g.SupportsSELDevice, w.SEL)
	d.eq("SupportsSDRRepositoryDevice", g.SupportsSDRRepositoryDevice, w.SDRRepo)
	d.eq("SupportsSensorDevice", g.SupportsSensorDevice, w.Sensor)
	d.eq("Manufacturer", uint32(g.Manufacturer), w.IANA)
	d.eq("Product", g.Product, w.Product)
	aux := [4]byte{}
	if w.Aux != nil {
		aux = *w.Aux
	}
	d.eq("AuxiliaryFirmwareRevision", g.AuxiliaryFirmwareRevision, aux)
	return d.err()
}

func CmpChanAuthCap(w *ref.ChanAuthCap, g *ipmi.GetChannelAuthenticationCapabilitiesRsp) error {
	d := &diff{}
	d.eq("Channel", uint8(g.Channel), w.Channel)
	d.eq("ExtendedCapabilities", g.ExtendedCapabilities, w.Ext)
	d.eq("AuthenticationTypeOEM", g.AuthenticationTypeOEM, w.OEMAuth)
	d.eq("AuthenticationTypePassword", g.AuthenticationTypePassword, w.Password)
	d.eq("AuthenticationTypeMD5", g.AuthenticationTypeMD5, w.MD5)
	d.eq("AuthenticationTypeMD2", g.AuthenticationTypeMD2, w.MD2)
	d.eq("AuthenticationTypeNone", g.AuthenticationTypeNone, w.None)
	d.eq("TwoKeyLogin", g.TwoKeyLogin, w.KG)
	// the library documents these two as the raw bit being set (polarity is its
	// documented reading, pinned by its own tests)
	d.eq("PerMessageAuthentication", g.PerMessageAuthentication, w.PerMsgBit)
	d.eq("UserLevelAuthentication", g.UserLevelAuthentication, w.UserLevelBit)
	d.eq("NonNullUsernamesEnabled", g.NonNullUsernamesEnabled, w.NonNull)
	d.eq("NullUsernamesEnabled", g.NullUsernamesEnabled, w.Null)
	d.eq("AnonymousLoginEnabled", g.AnonymousLoginEnabled, w.Anon)
	d.eq("SupportsV2", g.SupportsV2, w.V2)
	d.eq("SupportsV1", g.SupportsV1, w.V15)
	d.eq("OEM", uint32(g.OEM), w.OEMIANA)
	d.eq("OEMData", g.OEMData, w.OEMAux)
	return d.err()
}

func CmpSessionInfo(w *ref.SessionInfo, g *ipmi.GetSessionInfoRsp) error {
	d := &diff{}
	d.eq("Handle", uint8(g.Handle), w.Handle)
	d.eq("Max", g.Max, w.Max)
	d.eq("Active", g.Active, w.Active)
	if w.Form >= 6 {
		d.eq("UserID", g.UserID, w.User)
		d.eq("PrivilegeLevel", uint8(g.PrivilegeLevel), w.Priv)
		d.eq("IsIPMIv2", g.IsIPMIv2, w.Version == 1)
		d.eq("Channel", uint8(g.Channel), w.Channel)
	} else {
		d.eq("UserID", g.UserID, 0)
		d.eq("PrivilegeLevel", uint8(g.PrivilegeLevel), 0)
		d.eq("IsIPMIv2", g.IsIPMIv2, false)
		d.eq("Channel", uint8(g.Channel), 0)
	}
	if w.Form == 18 {
		ip4 := g.IP.To4()
		if ip4 == nil || !bytes.Equal(ip4, w.IP[:]) {
			d.errs = append(d.errs, fmt.Sprintf("IP: got %v, want %v", g.IP, w.IP))
		}
		if !bytes.Equal(g.MAC, w.MAC[:]) {
			d.errs = append(d.errs, fmt.Sprintf("MAC: got %v, want %x", g.MAC, w.MAC))
		}
		d.eq("Port", g.Port, w.Port)
	} else {
		if len(g.IP) != 0 || len(g.MAC) != 0 || g.Port != 0 {
			d.errs = append(d.errs, fmt.Sprintf("IP/MAC/Port present (%v %v %v) in a %d-byte response", g.IP, g.MAC, g.Port, w.Form))
		}
	}
	return d.err()
}

func CmpChassisStatus(w *ref.ChassisStatus, g *ipmi.GetChassisStatusRsp) error {
	d := &diff{}
	d.eq("PowerRestorePolicy", uint8(g.PowerRestorePolicy), w.Policy)
	d.eq("PowerControlFault", g.PowerControlFault, w.CtlFault)
	d.eq("PowerFault", g.PowerFault, w.Fault)
	d.eq("Interlock", g.Interlock, w.Interlock)
	d.eq("PowerOverload", g.PowerOverload, w.Overload)
	d.eq("PoweredOn", g.PoweredOn, w.On)
	d.eq("PoweredOnByIPMI", g.PoweredOnByIPMI, w.IPMIOn)
	d.eq("LastPowerDownFault", g.LastPowerDownFault, w.LFault)
	d.eq("LastPowerDownInterlock", g.LastPowerDownInterlock, w.LInterlock)
	d.eq("LastPowerDownOverload", g.LastPowerDownOverload, w.LOverload)
	d.eq("LastPowerDownSupplyFailure", g.LastPowerDownSupplyFailure, w.LACFail)
	if w.IdentSupported {
		d.eq("ChassisIdentifyState", uint8(g.ChassisIdentifyState), w.IdentState)
	} else {
		d.eq("ChassisIdentifyState", uint8(g.ChassisIdentifyState), 0xff)
	}
	d.eq("CoolingFault", g.CoolingFault, w.Fan)
	d.eq("DriveFault", g.DriveFault, w.Drive)
	d.eq("Lockout", g.Lockout, w.Lockout)
	d.eq("Intrusion", g.Intrusion, w.Intrusion)
	var x byte
	if w.Buttons != nil {
		x = *w.Buttons
	}
	d.eq("StandbyButtonDisableAllowed", g.StandbyButtonDisableAllowed, x&0x80 != 0)
	d.eq("DiagnosticInterruptButtonDisableAllowed", g.DiagnosticInterruptButtonDisableAllowed, x&0x40 != 0)
	d.eq("ResetButtonDisableAllowed", g.ResetButtonDisableAllowed, x&0x20 != 0)
	d.eq("PowerOffButtonDisableAllowed", g.PowerOffButtonDisableAllowed, x&0x10 != 0)
	d.eq("StandbyButtonDisabled", g.StandbyButtonDisabled, x&0x08 != 0)
	d.eq("DiagnosticInterruptButtonDisabled", g.DiagnosticInterruptButtonDisabled, x&0x04 != 0)
	d.eq("ResetButtonDisabled", g.ResetButtonDisabled, x&0x02 != 0)
	d.eq("PowerOffButtonDisabled", g.PowerOffButtonDisabled, x&0x01 != 0)
	return d.err()
}

func CmpSDRRepoInfo(w *ref.SDRRepoInfo, g *ipmi.GetSDRRepositoryInfoRsp) error {
	d := &diff{}
	d.eq("Version", g.Version, w.VerMajor*10+w.VerMinor)
	d.eq("Records", g.Records, w.Count)
	d.eq("FreeSpace", g.FreeSpace, w.Free)
	d.eq("LastAddition", g.LastAddition.Unix(), int64(w.AddTS))
	d.eq("LastErase", g.LastErase.Unix(), int64(w.EraseTS))
	d.eq("Overflow", g.Overflow, w.Overflow)
	d.eq("SupportsModalUpdate", g.SupportsModalUpdate, w.ModalBits&2 != 0)
	d.eq("SupportsNonModalUpdate", g.SupportsNonModalUpdate, w.ModalBits&1 != 0)
	d.eq("SupportsDelete", g.SupportsDelete, w.Delete)
	d.eq("SupportsPartialAdd", g.SupportsPartialAdd, w.PartialAdd)
	d.eq("SupportsReserve", g.SupportsReserve, w.Reserve)
	d.eq("SupportsGetAllocationInformation", g.SupportsGetAllocationInformation, w.AllocInfo)
	return d.err()
}

func CmpSensorReading(w *ref.SensorReading, g *ipmi.GetSensorReadingRsp) error {
	d := &diff{}
	d.eq("Reading", g.Reading, w.Reading)
	d.eq("EventMessagesEnabled", g.EventMessagesEnabled, w.Events)
	d.eq("ScanningEnabled", g.ScanningEnabled, w.Scanning)
	d.eq("ReadingUnavailable", g.ReadingUnavailable, w.Unavailable)
	return d.err()
}

func CmpDCMIPower(w *ref.DCMIPower, g *dcmi.GetPowerReadingRsp) error {
	d := &diff{}
	d.eq("Instantaneous", g.Instantaneous, w.Cur)
	d.eq("Min", g.Min, w.Min)
	d.eq("Max", g.Max, w.Max)
	d.eq("Avg", g.Avg, w.Avg)
	d.eq("Timestamp", g.Timestamp.Unix(), int64(w.TS))
	d.eq("Period", g.Period, time.Duration(w.PeriodMS)*time.Millisecond)
	d.eq("Active", g.Active, w.Active)
	return d.err()
}

func CmpDCMISensorInfo(w *ref.DCMISensorInfo, g *dcmi.GetDCMISensorInfoRsp) error {
	d := &diff{}
	d.eq("Instances", g.Instances, w.Total)
	got := make([]uint16, len(g.RecordIDs))
	for i, r := range g.RecordIDs {
		got[i] = uint16(r)
	}
	want := w.IDs
	if want == nil {
		want = []uint16{}
	}
	d.eq("RecordIDs", got, want)
	return d.err()
}

// IDStringMatches compares a decoded identity with the reference runes. Bytes
// >= 0x80 of 8-bit strings may be returned raw or as U+0080..U+00FF (see C20).
func IDStringMatches(w ref.IDString, got string) bool {
	r := w.Runes()
	if string(r) == got {
		return true
	}
	if w.Enc == ref.Enc8Bit || w.Enc == ref.EncUnicode {
		return string(w.Codes) == got
	}
	return false
}

func CmpFSR(w *ref.FSR, g *ipmi.FullSensorRecord) error {
	d := &diff{}
	d.eq("OwnerAddress", uint8(g.OwnerAddress), w.Owner)
	d.eq("Channel", uint8(g.Channel), w.Channel)
	d.eq("OwnerLUN", uint8(g.OwnerLUN), w.LUN)
	d.eq("Number", g.Number, w.Number)
	d.eq("Entity", uint8(g.Entity), w.Entity)
	d.eq("IsContainerEntity", g.IsContainerEntity, w.Logical)
	d.eq("Instance", uint8(g.Instance), w.Instance)
	d.eq("Ignore", g.Ignore, w.Ignore)
	d.eq("SensorType", uint8(g.SensorType), w.SensorType)
	d.eq("OutputType", uint8(g.OutputType), w.ReadingType)
	d.eq("AnalogDataFormat", uint8(g.AnalogDataFormat), w.Format)
	d.eq("RateUnit", uint8(g.RateUnit), w.Rate)
	d.eq("IsPercentage", g.IsPercentage, w.Percentage)
	d.eq("BaseUnit", uint8(g.BaseUnit), w.BaseUnit)
	d.eq("ModifierUnit", uint8(g.ModifierUnit), w.ModUnit)
	d.eq("Linearisation", uint8(g.Linearisation), w.Lin)
	d.eq("M", int(g.M), w.M)
	d.eq("B", int(g.B), w.B)
	d.eq("Tolerance", g.Tolerance, w.Tol)
	d.eq("Accuracy", int(g.Accuracy), w.Acc)
	d.eq("AccuracyExp", g.AccuracyExp, w.AccExp)
	d.eq("Direction", uint8(g.Direction), w.Dir)
	d.eq("RExp", int(g.RExp), w.K2)
	d.eq("BExp", int(g.BExp), w.K1)
	d.eq("NominalReadingSpecified", g.NominalReadingSpecified, w.NominalSpec)
	d.eq("NormalMaxSpecified", g.NormalMaxSpecified, w.NormalMaxSpec)
	d.eq("NormalMinSpecified", g.NormalMinSpecified, w.NormalMinSpec)
	d.eq("NominalReading", g.NominalReading, w.Nominal)
	d.eq("NormalMax", g.NormalMax, w.NormalMax)
	d.eq("NormalMin", g.NormalMin, w.NormalMin)
	d.eq("SensorMax", g.SensorMax, w.SensorMax)
	d.eq("SensorMin", g.SensorMin, w.SensorMin)
	if !IDStringMatches(w.ID, g.Identity) {
		d.errs = append(d.errs, fmt.Sprintf("Identity: got %q, want %q", g.Identity, string(w.ID.Runes())))
	}
	return d.err()
}
