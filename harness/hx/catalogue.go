package hx

import (
	"bytes"
	"fmt"
	"time"

	"github.com/gebn/bmc/pkg/dcmi"
	"github.com/gebn/bmc/pkg/iana"
	"github.com/gebn/bmc/pkg/ipmi"
	"github.com/google/gopacket"
	"pgregory.net/rapid"

	"verif/harness/ref"
	"verif/harness/simbmc"
)

// Call is one prepared command invocation: the library command value, what the
// reference parser must see in the request, and a comparator for the decoded
// response against what was installed in the BMC.
type Call struct {
	Name       string
	Key        uint16 // request NetFn<<8 | command
	Cmd        ipmi.Command
	WantLUN    byte
	WantFields map[string]uint64
	HasBody    bool
	// Check compares the command's decoded response with the installed data.
	Check func() error
	// Summary identifies the response value for cross-call comparisons.
	Summary func() string
	// remake rebuilds the command value and comparators against the same
	// BMC-side data (set by Catalogue()).
	remake func() *Call
	// SerialiseFails is set when the library must refuse to serialise the
	// request (no datagram may be sent).
	SerialiseFails bool
}

// Fresh returns a new, never-used command value of the same kind with the same
// request fields and the same expectations (the BMC-side data is untouched).
func (c *Call) Fresh() *Call {
	if c.remake == nil {
		return c
	}
	n := c.remake()
	n.remake = c.remake
	return n
}

// Entry is a catalogue entry.
type Entry struct {
	Name    string
	Session bool // only meaningful inside a session (still answered outside)
	Prepare func(t *rapid.T, b *simbmc.BMC) *Call
}

func key(nf, cmd byte) uint16 { return uint16(nf)<<8 | uint16(cmd) }

// rawCmd is a harness-defined ipmi.Command (the library's extension point).
type rawCmd struct {
	name string
	op   ipmi.Operation
	lun  ipmi.LUN
	req  gopacket.Payload
	rsp  rawRsp
	body bool
}

type rawRsp struct{ data []byte }

func (r *rawRsp) CanDecode() gopacket.LayerClass    { return gopacket.LayerTypePayload }
func (r *rawRsp) NextLayerType() gopacket.LayerType { return gopacket.LayerTypeZero }
func (r *rawRsp) LayerPayload() []byte              { return nil }
func (r *rawRsp) DecodeFromBytes(d []byte, _ gopacket.DecodeFeedback) error {
	r.data = append([]byte(nil), d...)
	return nil
}

func (c *rawCmd) Name() string               { return c.name }
func (c *rawCmd) Operation() *ipmi.Operation { return &c.op }
func (c *rawCmd) RemoteLUN() ipmi.LUN        { return c.lun }
func (c *rawCmd) Request() gopacket.SerializableLayer {
	if c.req == nil {
		return nil
	}
	return c.req
}
func (c *rawCmd) Response() gopacket.DecodingLayer {
	if !c.body {
		return nil
	}
	return &c.rsp
}

// RawCommand builds a harness-defined command with an arbitrary operation and
// request body; the response body is captured verbatim.
func RawCommand(name string, op ipmi.Operation, lun byte, req []byte) (ipmi.Command, func() []byte) {
	c := &rawCmd{name: name, op: op, lun: ipmi.LUN(lun), body: true}
	if req != nil {
		c.req = gopacket.Payload(req)
	}
	return c, func() []byte { return c.rsp.data }
}

// Catalogue lists every command the library offers.
func Catalogue() []Entry {
	return []Entry{
		{Name: "GetDeviceID", Prepare: func(t *rapid.T, b *simbmc.BMC) *Call {
			d := GenDeviceID().Draw(t, "deviceID")
			b.Data.DeviceID = d
			return withRemake(func() *Call {
				c := &ipmi.GetDeviceIDCmd{}
				return &Call{Name: "Get Device ID", Key: key(ref.NetFnApp, ref.CmdGetDeviceID), Cmd: c, WantFields: map[string]uint64{}, HasBody: true,
					Check: func() error { return CmpDeviceID(&d, &c.Rsp) }, Summary: func() string { return fmt.Sprintf("%+v", c.Rsp) }}
			})
		}},
		{Name: "GetSystemGUID", Prepare: func(t *rapid.T, b *simbmc.BMC) *Call {
			g := rapid.SliceOfN(rapid.Byte(), 16, 16).Draw(t, "guid")
			copy(b.GUID[:], g)
			return withRemake(func() *Call {
				c := &ipmi.GetSystemGUIDCmd{}
				return &Call{Name: "Get System GUID", Key: key(ref.NetFnApp, ref.CmdGetSystemGUID), Cmd: c, WantFields: map[string]uint64{}, HasBody: true,
					Check: func() error {
						if c.Rsp.GUID != b.GUID {
							return fmt.Errorf("GUID: got %x want %x", c.Rsp.GUID, b.GUID)
						}
						return nil
					}, Summary: func() string { return fmt.Sprintf("%x", c.Rsp.GUID) }}
			})
		}},
		{Name: "GetChannelAuthenticationCapabilities", Prepare: func(t *rapid.T, b *simbmc.BMC) *Call {
			d := GenChanAuthCap().Draw(t, "cap")
			b.Data.ChanAuthCap = d
			req := ipmi.GetChannelAuthenticationCapabilitiesReq{
				ExtendedData: rapid.Bool().Draw(t, "ext"), Channel: ipmi.Channel(rapid.IntRange(0, 15).Draw(t, "chan")),
				MaxPrivilegeLevel: ipmi.PrivilegeLevel(rapid.IntRange(0, 5).Draw(t, "priv"))}
			return withRemake(func() *Call {
				c := &ipmi.GetChannelAuthenticationCapabilitiesCmd{Req: req}
				ext := uint64(0)
				if c.Req.ExtendedData {
					ext = 1
				}
				return &Call{Name: "Get Channel Authentication Capabilities", Key: key(ref.NetFnApp, ref.CmdGetChanAuthCap), Cmd: c, HasBody: true,
					WantFields: map[string]uint64{"ext": ext, "channel": uint64(c.Req.Channel), "priv": uint64(c.Req.MaxPrivilegeLevel)},
					Check:      func() error { return CmpChanAuthCap(&d, &c.Rsp) }, Summary: func() string { return fmt.Sprintf("%+v", c.Rsp) }}
			})
		}},
		{Name: "GetSessionInfo", Session: true, Prepare: func(t *rapid.T, b *simbmc.BMC) *Call {
			d := GenSessionInfo().Draw(t, "info")
			b.Data.SessionInfo = d
			var req ipmi.GetSessionInfoReq
			want := map[string]uint64{}
			switch rapid.IntRange(0, 2).Draw(t, "form") {
			case 0:
				req.Index = ipmi.SessionIndex(rapid.IntRange(0, 0xFD).Draw(t, "index"))
			case 1:
				req.Index = ipmi.SessionIndexHandle
				req.Handle = ipmi.SessionHandle(rapid.Byte().Draw(t, "handle"))
				want["handle"] = uint64(req.Handle)
			case 2:
				req.Index = ipmi.SessionIndexID
				req.ID = rapid.Uint32().Draw(t, "id")
				want["id"] = uint64(req.ID)
			}
			want["index"] = uint64(req.Index)
			return withRemake(func() *Call {
				c := &ipmi.GetSessionInfoCmd{Req: req}
				return &Call{Name: "Get Session Info", Key: key(ref.NetFnApp, ref.CmdGetSessionInfo), Cmd: c, WantFields: want, HasBody: true,
					Check: func() error { return CmpSessionInfo(&d, &c.Rsp) }, Summary: func() string { return fmt.Sprintf("%+v", c.Rsp) }}
			})
		}},
		{Name: "SetSessionPrivilegeLevel", Session: true, Prepare: func(t *rapid.T, b *simbmc.BMC) *Call {
			lvl := rapid.SampledFrom([]int{0, 2, 3, 4, 5}).Draw(t, "level")
			b.Data.PrivLevel = byte(rapid.IntRange(1, 5).Draw(t, "current"))
			return withRemake(func() *Call {
				c := &ipmi.SetSessionPrivilegeLevelCmd{Req: ipmi.SetSessionPrivilegeLevelReq{PrivilegeLevel: ipmi.PrivilegeLevel(lvl)}}
				want := b.Data.PrivLevel
				if lvl != 0 {
					want = byte(lvl)
				}
				return &Call{Name: "Set Session Privilege Level", Key: key(ref.NetFnApp, ref.CmdSetSessPriv), Cmd: c, HasBody: true,
					WantFields: map[string]uint64{"level": uint64(lvl)},
					Check: func() error {
						if byte(c.Rsp.PrivilegeLevel) != want {
							return fmt.Errorf("privilege level: got %d want %d", c.Rsp.PrivilegeLevel, want)
						}
						return nil
					}, Summary: func() string { return fmt.Sprint(c.Rsp.PrivilegeLevel) }}
			})
		}},
		{Name: "CloseSessionOther", Session: true, Prepare: func(t *rapid.T, b *simbmc.BMC) *Call {
			// closes some other (non-existent) session so the current one stays usable
			var req ipmi.CloseSessionReq
			want := map[string]uint64{}
			if rapid.Bool().Draw(t, "byHandle") {
				req.ID = 0
				req.Handle = ipmi.SessionHandle(rapid.Byte().Draw(t, "handle"))
				want["id"], want["handle"] = 0, uint64(req.Handle)
			} else {
				id := rapid.Uint32Range(1, 0xFFFFFFFF).Draw(t, "id")
				for b.Sessions[id] != nil {
					id++
				}
				req.ID = id
				want["id"] = uint64(id)
			}
			return withRemake(func() *Call {
				c := &ipmi.CloseSessionCmd{Req: req}
				return &Call{Name: "Close Session", Key: key(ref.NetFnApp, ref.CmdCloseSession), Cmd: c, WantFields: want,
					Check: func() error { return nil }, Summary: func() string { return "" }}
			})
		}},
		{Name: "GetChannelCipherSuites", Prepare: func(t *rapid.T, b *simbmc.BMC) *Call {
			n := rapid.IntRange(0, 40).Draw(t, "recordBytes")
			b.SuiteRecords = rapid.SliceOfN(rapid.Byte(), n, n).Draw(t, "records")
			req := ipmi.GetChannelCipherSuitesReq{
				Channel: ipmi.Channel(rapid.IntRange(0, 15).Draw(t, "chan")), PayloadType: ipmi.PayloadType(rapid.IntRange(0, 63).Draw(t, "pt")),
				ListIndex: uint8(rapid.IntRange(0, 63).Draw(t, "index"))}
			return withRemake(func() *Call {
				c := &ipmi.GetChannelCipherSuitesCmd{Req: req}
				idx := int(c.Req.ListIndex)
				lo, hi := idx*16, idx*16+16
				if lo > n {
					lo = n
				}
				if hi > n {
					hi = n
				}
				want := append([]byte(nil), b.SuiteRecords[lo:hi]...)
				return &Call{Name: "Get Channel Cipher Suites", Key: key(ref.NetFnApp, ref.CmdGetCipherSuites), Cmd: c, HasBody: true,
					WantFields: map[string]uint64{"channel": uint64(c.Req.Channel), "payloadType": uint64(c.Req.PayloadType), "listAlgs": 1, "index": uint64(c.Req.ListIndex)},
					Check: func() error {
						if string(c.Rsp.CipherSuiteRecordsChunk) != string(want) {
							return fmt.Errorf("chunk: got %x want %x", c.Rsp.CipherSuiteRecordsChunk, want)
						}
						return nil
					}, Summary: func() string { return fmt.Sprintf("%x", c.Rsp.CipherSuiteRecordsChunk) }}
			})
		}},
		{Name: "GetChassisStatus", Prepare: func(t *rapid.T, b *simbmc.BMC) *Call {
			d := GenChassisStatus().Draw(t, "chassis")
			b.Data.Chassis = d
			return withRemake(func() *Call {
				c := &ipmi.GetChassisStatusCmd{}
				return &Call{Name: "Get Chassis Status", Key: key(ref.NetFnChassis, ref.CmdChassisStatus), Cmd: c, WantFields: map[string]uint64{}, HasBody: true,
					Check: func() error { return CmpChassisStatus(&d, &c.Rsp) }, Summary: func() string { return fmt.Sprintf("%+v", c.Rsp) }}
			})
		}},
		{Name: "ChassisControl", Session: true, Prepare: func(t *rapid.T, b *simbmc.BMC) *Call {
			v := rapid.IntRange(0, 5).Draw(t, "control")
			return withRemake(func() *Call {
				c := &ipmi.ChassisControlCmd{Req: ipmi.ChassisControlReq{ChassisControl: ipmi.ChassisControl(v)}}
				return &Call{Name: "Chassis Control", Key: key(ref.NetFnChassis, ref.CmdChassisControl), Cmd: c, WantFields: map[string]uint64{"control": uint64(v)},
					Check: func() error { return nil }, Summary: func() string { return "" }}
			})
		}},
		{Name: "GetSDRRepositoryInfo", Session: true, Prepare: func(t *rapid.T, b *simbmc.BMC) *Call {
			d := GenSDRRepoInfo().Draw(t, "repoInfo")
			b.Data.Repo.Info = d
			b.Data.Repo.AddTS, b.Data.Repo.EraseTS = d.AddTS, d.EraseTS
			// the record count served is this entry's own, independent of the
			// records other entries install
			cnt := d.Count
			b.Data.Repo.CountOverride = &cnt
			return withRemake(func() *Call {
				c := &ipmi.GetSDRRepositoryInfoCmd{}
				return &Call{Name: "Get SDR Repository Info", Key: key(ref.NetFnStorage, ref.CmdSDRRepoInfo), Cmd: c, WantFields: map[string]uint64{}, HasBody: true,
					Check: func() error { return CmpSDRRepoInfo(&d, &c.Rsp) }, Summary: func() string { return fmt.Sprintf("%+v", c.Rsp) }}
			})
		}},
		{Name: "ReserveSDRRepository", Session: true, Prepare: func(t *rapid.T, b *simbmc.BMC) *Call {
			b.Data.Repo.Reservation = rapid.Uint16().Draw(t, "lastReservation")
			return withRemake(func() *Call {
				c := &ipmi.ReserveSDRRepositoryCmd{}
				return &Call{Name: "Reserve SDR Repository", Key: key(ref.NetFnStorage, ref.CmdReserveSDR), Cmd: c, WantFields: map[string]uint64{}, HasBody: true,
					Check: func() error {
						if uint16(c.Rsp.ReservationID) != b.Data.Repo.Reservation {
							return fmt.Errorf("reservation: got %#x want %#x", c.Rsp.ReservationID, b.Data.Repo.Reservation)
						}
						return nil
					}, Summary: func() string { return fmt.Sprint(c.Rsp.ReservationID) }}
			})
		}},
		{Name: "GetSDR", Session: true, Prepare: func(t *rapid.T, b *simbmc.BMC) *Call {
			// one record of 5..40 bytes; header-only, partial or full read
			id := rapid.Uint16Range(0, 0xFFFE).Draw(t, "recordID")
			next := rapid.Uint16().Draw(t, "nextID")
			body := rapid.SliceOfN(rapid.Byte(), 0, 35).Draw(t, "recordBody")
			rec := append(ref.SDRHeader(id, 1, 5, ref.RecCompact, byte(len(body))), body...)
			b.Data.Repo.Records = []simbmc.Record{{ID: id, Bytes: rec}, {ID: next, Bytes: ref.SDRHeader(next, 1, 5, ref.RecCompact, 0)}}
			b.Data.Repo.Reservation = rapid.Uint16Range(1, 0xFFFF).Draw(t, "reservation")
			b.Data.Repo.ReservationValid = true
			off := rapid.IntRange(0, len(rec)).Draw(t, "offset")
			cnt := rapid.IntRange(0, len(rec)-off).Draw(t, "count")
			return withRemake(func() *Call {
				c := &ipmi.GetSDRCmd{Req: ipmi.GetSDRReq{ReservationID: ipmi.ReservationID(b.Data.Repo.Reservation), RecordID: ipmi.RecordID(id), Offset: uint8(off), Length: uint8(cnt)}}
				want := rec[off : off+cnt]
				return &Call{Name: "Get SDR", Key: key(ref.NetFnStorage, ref.CmdGetSDR), Cmd: c, HasBody: true,
					WantFields: map[string]uint64{"reservation": uint64(b.Data.Repo.Reservation), "record": uint64(id), "offset": uint64(off), "count": uint64(cnt)},
					Check: func() error {
						if uint16(c.Rsp.Next) != next {
							return fmt.Errorf("next: got %#x want %#x", c.Rsp.Next, next)
						}
						if string(c.Rsp.Payload) != string(want) {
							return fmt.Errorf("record data: got %x want %x", c.Rsp.Payload, want)
						}
						return nil
					}, Summary: func() string { return fmt.Sprintf("%v %x", c.Rsp.Next, c.Rsp.Payload) }}
			})
		}},
		{Name: "GetSensorReading", Session: true, Prepare: func(t *rapid.T, b *simbmc.BMC) *Call {
			d := GenSensorReading().Draw(t, "reading")
			num, lun := rapid.Byte().Draw(t, "number"), byte(rapid.IntRange(0, 3).Draw(t, "lun"))
			b.Data.Sensors = map[uint16]ref.SensorReading{uint16(lun)<<8 | uint16(num): d}
			return withRemake(func() *Call {
				c := &ipmi.GetSensorReadingCmd{Req: ipmi.GetSensorReadingReq{Number: num}, OwnerLUN: ipmi.LUN(lun)}
				return &Call{Name: "Get Sensor Reading", Key: key(ref.NetFnSensor, ref.CmdSensorReading), Cmd: c, WantLUN: lun, HasBody: true,
					WantFields: map[string]uint64{"number": uint64(num)},
					Check:      func() error { return CmpSensorReading(&d, &c.Rsp) }, Summary: func() string { return fmt.Sprintf("%+v", c.Rsp) }}
			})
		}},
		{Name: "DCMIGetPowerReading", Session: true, Prepare: func(t *rapid.T, b *simbmc.BMC) *Call {
			d := GenDCMIPower().Draw(t, "power")
			b.Data.Power = d
			var req dcmi.GetPowerReadingReq
			want := map[string]uint64{"period": 0}
			if rapid.Bool().Draw(t, "enhanced") {
				req.Mode = dcmi.SystemPowerStatisticsModeEnhanced
				pb := rapid.Byte().Draw(t, "periodByte")
				sec := ref.RollingAvgSeconds(pb)
				req.Period = time.Duration(sec) * time.Second
				want["period"] = uint64(ref.RollingAvgByte(sec))
			} else {
				req.Mode = dcmi.SystemPowerStatisticsModeNormal
			}
			want["mode"] = uint64(req.Mode)
			return withRemake(func() *Call {
				c := &dcmi.GetPowerReadingCmd{Req: req}
				return &Call{Name: "Get Power Reading", Key: key(ref.NetFnGroup, ref.CmdDCMIPower), Cmd: c, WantFields: want, HasBody: true,
					Check: func() error { return CmpDCMIPower(&d, &c.Rsp) }, Summary: func() string { return fmt.Sprintf("%+v", c.Rsp) }}
			})
		}},
		{Name: "DCMIGetSensorInfo", Session: true, Prepare: func(t *rapid.T, b *simbmc.BMC) *Call {
			ent := rapid.Byte().Draw(t, "entity")
			n := rapid.IntRange(0, 20).Draw(t, "instances")
			ids := rapid.SliceOfN(rapid.Uint16(), n, n).Draw(t, "ids")
			b.Data.DCMIIDs = map[byte][]uint16{ent: ids}
			b.Data.DCMIPage = rapid.IntRange(1, 8).Draw(t, "page")
			start := rapid.IntRange(0, n+1).Draw(t, "start")
			styp := rapid.Byte().Draw(t, "sensorType")
			return withRemake(func() *Call {
				c := &dcmi.GetDCMISensorInfoCmd{Req: dcmi.GetDCMISensorInfoReq{Type: ipmi.SensorType(styp), Entity: ipmi.EntityID(ent), Instance: 0, InstanceStart: uint8(start)}}
				exp := ref.DCMISensorInfo{Total: byte(n)}
				if start >= 1 && start <= n {
					hi := start - 1 + b.Data.DCMIPage
					if hi > n {
						hi = n
					}
					exp.IDs = ids[start-1 : hi]
				}
				return &Call{Name: "Get DCMI Sensor Info", Key: key(ref.NetFnGroup, ref.CmdDCMISensorInfo), Cmd: c, HasBody: true,
					WantFields: map[string]uint64{"type": uint64(styp), "entity": uint64(ent), "instance": 0, "start": uint64(start)},
					Check:      func() error { return CmpDCMISensorInfo(&exp, &c.Rsp) }, Summary: func() string { return fmt.Sprintf("%v %v", c.Rsp.Instances, c.Rsp.RecordIDs) }}
			})
		}},
		{Name: "DCMIGetCapabilities", Prepare: func(t *rapid.T, b *simbmc.BMC) *Call {
			param := byte(rapid.IntRange(1, 5).Draw(t, "param"))
			cc := GenDCMICaps(param).Draw(t, "caps")
			b.Data.DCMICaps = map[byte][]byte{param: cc.Bytes()}
			return withRemake(func() *Call {
				cmd, check, sum := cc.Command()
				return &Call{Name: cmd.Name(), Key: key(ref.NetFnGroup, ref.CmdDCMICaps), Cmd: cmd, HasBody: true,
					WantFields: map[string]uint64{"param": uint64(param)}, Check: check, Summary: sum}
			})
		}},
	}
}

func withRemake(mk func() *Call) *Call {
	c := mk()
	c.remake = mk
	return c
}

// CatalogueEntry returns the named entry.
// RawEntries are harness-defined commands (the library's extension point:
// any ipmi.Command) for operations the library has no layer for; their
// response layer takes the body as it comes.
func RawEntries() []Entry {
	mk := func(name string, nf ipmi.NetworkFunction, cmd byte, enterprise uint32) Entry {
		return Entry{Name: name, Prepare: func(t *rapid.T, b *simbmc.BMC) *Call {
			body := rapid.SliceOfN(rapid.Byte(), 1, 6).Draw(t, "rawBody")
			if b.RawBodies == nil {
				b.RawBodies = map[uint16][]byte{}
			}
			b.RawBodies[key(byte(nf), cmd)] = body
			b.Fallback = simbmc.RawFallback
			return withRemake(func() *Call {
				op := ipmi.Operation{Function: nf, Command: ipmi.CommandNumber(cmd), Enterprise: iana.Enterprise(enterprise)}
				c, got := RawCommand(name, op, 0, nil)
				return &Call{Name: name, Key: key(byte(nf), cmd), Cmd: c, WantFields: map[string]uint64{}, HasBody: true,
					Check: func() error {
						if !bytes.Equal(got(), body) {
							return fmt.Errorf("raw response body: got %x want %x", got(), body)
						}
						return nil
					}, Summary: func() string { return fmt.Sprintf("%x", got()) }}
			})
		}}
	}
	return []Entry{
		mk("RawGetACPIPowerState", ipmi.NetworkFunctionAppReq, 0x07, 0),
		mk("RawGetSELInfo", ipmi.NetworkFunctionStorageReq, 0x40, 0),
		mk("RawOEMCommand", ipmi.NetworkFunctionOEMReq, 0x31, 0x2A7C),
	}
}

func CatalogueEntry(name string) Entry {
	for _, e := range append(Catalogue(), RawEntries()...) {
		if e.Name == name {
			return e
		}
	}
	panic("no catalogue entry " + name)
}
