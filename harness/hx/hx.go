// Package hx holds helpers shared by the per-property check packages: wiring
// the real library to the simulated BMC over the in-memory transport, and
// common generators.
package hx

import (
	"context"
	"crypto/hmac"
	"crypto/sha1"
	"hash"
	"time"

	"github.com/cenkalti/backoff/v4"
	"github.com/gebn/bmc"
	"github.com/gebn/bmc/pkg/ipmi"
	"pgregory.net/rapid"

	"verif/harness/memnet"
	"verif/harness/ref"
	"verif/harness/simbmc"
)

// World is one library instance talking to one simulated BMC.
type World struct {
	BMC *simbmc.BMC
	Net *memnet.Net
	T   *bmc.V2SessionlessTransport

	// OnSend, if set, runs at the start of every Send (before cancellation).
	OnSend   func(n int, d []byte)
	cancelAt int
	cancelFn context.CancelFunc
	ctxCalls int
}

// NewWorld wires a fresh BMC, transport and library connection. The back-off is
// zero and the per-attempt timeout an hour, so nothing depends on the clock.
func NewWorld(seed uint64, strict bool) *World {
	return NewWorldBackOff(seed, strict, &backoff.ZeroBackOff{})
}

// NewWorldBackOff is NewWorld with a back-off policy of the caller's choice.
func NewWorldBackOff(seed uint64, strict bool, bo backoff.BackOff) *World {
	b := simbmc.New(seed)
	n := &memnet.Net{Peer: b.Peer, Strict: strict, Poison: 0xA5}
	t := bmc.NewV2SessionlessTransportForVerif(n, time.Hour, bo)
	// which contexts get the additional deadline (see Ctx) varies with the seed
	w := &World{BMC: b, Net: n, T: t, ctxCalls: int(seed>>7) & 1}
	n.OnSend = func(k int, d []byte) {
		if w.OnSend != nil {
			w.OnSend(k, d)
		}
		if w.cancelFn != nil && k >= w.cancelAt {
			w.cancelFn()
		}
	}
	return w
}

// Ctx returns a context that the harness cancels inside the k-th Send counted
// from now (so "expiry" is deterministic and clock-free). k <= 0 never cancels.
//
// Every other context additionally carries a deadline 20 minutes away: far
// beyond any call the checks make, but closer than one attempt timeout (an
// hour), so callers with and without a deadline are both exercised.
func (w *World) Ctx(k int) (context.Context, context.CancelFunc) {
	ctx, cancel := context.WithCancel(context.Background())
	w.cancelAt, w.cancelFn = 0, nil
	if k > 0 {
		w.cancelAt, w.cancelFn = w.Net.Sends+k, cancel
	}
	w.ctxCalls++
	if w.ctxCalls%2 == 0 {
		dctx, dcancel := context.WithTimeout(ctx, 20*time.Minute)
		return dctx, func() { dcancel(); cancel() }
	}
	return ctx, cancel
}

// LibSuite converts a reference suite to the library's type.
func LibSuite(s ref.Suite) ipmi.CipherSuite {
	return ipmi.CipherSuite{
		AuthenticationAlgorithm:  ipmi.AuthenticationAlgorithm(s.Auth),
		IntegrityAlgorithm:       ipmi.IntegrityAlgorithm(s.Integ),
		ConfidentialityAlgorithm: ipmi.ConfidentialityAlgorithm(s.Conf),
	}
}

// Suites9 are the nine must-succeed suites: HMAC auth x HMAC integrity x AES.
func Suites9() []ref.Suite {
	var out []ref.Suite
	for _, a := range []uint8{ref.AuthSHA1, ref.AuthMD5, ref.AuthSHA256} {
		for _, i := range []uint8{ref.IntegSHA1_96, ref.IntegMD5_128, ref.IntegSHA256128} {
			out = append(out, ref.Suite{Auth: a, Integ: i, Conf: ref.ConfAES})
		}
	}
	return out
}

// Suites24 adds the None variants for integrity and confidentiality.
func Suites24() []ref.Suite {
	var out []ref.Suite
	for _, a := range []uint8{ref.AuthSHA1, ref.AuthMD5, ref.AuthSHA256} {
		for _, i := range []uint8{ref.IntegNone, ref.IntegSHA1_96, ref.IntegMD5_128, ref.IntegSHA256128} {
			for _, c := range []uint8{ref.ConfNone, ref.ConfAES} {
				out = append(out, ref.Suite{Auth: a, Integ: i, Conf: c})
			}
		}
	}
	return out
}

// Suites12 are the suites the library can run a session under: the nine plus
// integrity None (packets then carry no AuthCode and are numbered by the
// unauthenticated counter) with AES.
func Suites12() []ref.Suite {
	out := Suites9()
	for _, a := range []uint8{ref.AuthSHA1, ref.AuthMD5, ref.AuthSHA256} {
		out = append(out, ref.Suite{Auth: a, Integ: ref.IntegNone, Conf: ref.ConfAES})
	}
	return out
}

// MustSucceed reports whether a suite is in the must-succeed class.
func MustSucceed(s ref.Suite) bool { return s.Integ != ref.IntegNone && s.Conf != ref.ConfNone }

// Creds is a generated login configuration.
type Creds struct {
	User     string
	Password []byte
	KG       []byte
	Priv     uint8
	Lookup   bool // PrivilegeLevelLookup (name + privilege)
	// Packed: 0 = password and K_G are separate allocations; 1 = one buffer
	// holding password, K_G, further data; 2 = K_G, password, further data
	Packed int
	Suite  ref.Suite
	Seed   uint64
	// DefaultSuites leaves the cipher-suite list of the options empty (the library
	// then discovers what the BMC advertises and picks from its defaults 17, 3);
	// only meaningful when Suite is one of those two.
	DefaultSuites bool
}

// IsLibraryDefault reports whether the suite is one of the library's defaults
// (cipher suites 17 and 3).
func IsLibraryDefault(s ref.Suite) bool {
	return s == ref.Suite{Auth: ref.AuthSHA256, Integ: ref.IntegSHA256128, Conf: ref.ConfAES} || s == ref.Suite{Auth: ref.AuthSHA1, Integ: ref.IntegSHA1_96, Conf: ref.ConfAES}
}

// GenUsername draws an ASCII (1..127) username of 0..16 bytes.
func GenUsername() *rapid.Generator[string] {
	return rapid.Custom(func(t *rapid.T) string {
		n := rapid.IntRange(0, 16).Draw(t, "ulen")
		b := make([]byte, n)
		for i := range b {
			b[i] = byte(rapid.IntRange(1, 127).Draw(t, "uc"))
		}
		return string(b)
	})
}

// GenCreds draws a full login configuration over the given suites.
func GenCreds(suites []ref.Suite) *rapid.Generator[Creds] {
	return rapid.Custom(func(t *rapid.T) Creds {
		c := Creds{}
		c.Suite = rapid.SampledFrom(suites).Draw(t, "suite")
		c.User = GenUsername().Draw(t, "user")
		c.Password = rapid.SliceOfN(rapid.Byte(), 0, 20).Draw(t, "password")
		if rapid.Bool().Draw(t, "hasKG") {
			// K_G is a 20-byte value; a shorter one is the same HMAC key as its
			// zero-padded form, which is what the BMC stores
			n := 20
			if rapid.IntRange(0, 3).Draw(t, "shortKG") == 0 {
				n = rapid.IntRange(1, 19).Draw(t, "kgLen")
			}
			c.KG = rapid.SliceOfN(rapid.Byte(), n, n).Draw(t, "kg")
		}
		if c.KG == nil && rapid.IntRange(0, 3).Draw(t, "emptyKG") == 0 {
			// "no K_G" spelt as an empty, non-nil slice (an empty configuration value)
			c.KG = []byte{}
		}
		c.Priv = uint8(rapid.IntRange(0, 5).Draw(t, "priv"))
		c.Lookup = rapid.Bool().Draw(t, "lookup")
		c.Seed = rapid.Uint64().Draw(t, "bmcSeed")
		c.Packed = rapid.SampledFrom([]int{0, 0, 0, 1, 2}).Draw(t, "secretsInOneBuffer")
		return c
	})
}

// Opts converts credentials to the library's session options.
func (c Creds) Opts() *bmc.V2SessionOpts {
	o := c.opts()
	if c.DefaultSuites && IsLibraryDefault(c.Suite) {
		o.CipherSuites = nil
	}
	return o
}

func (c Creds) opts() *bmc.V2SessionOpts {
	pw, kg := c.Password, c.KG
	if c.Packed != 0 && pw != nil {
		// the caller keeps its secrets in one buffer (a decoded secret blob, a
		// memory-locked arena): the password and K_G handed to the library are
		// adjacent sub-slices of it whose capacity extends over what follows
		blob := make([]byte, 0, len(pw)+len(kg)+32)
		if c.Packed == 1 {
			blob = append(append(blob, pw...), kg...)
			blob = append(blob, "next-secret-in-the-arena-0123456"...)
			pw = blob[:len(pw)]
			if kg != nil {
				kg = blob[len(pw) : len(pw)+len(kg)]
			}
		} else {
			blob = append(append(blob, kg...), pw...)
			blob = append(blob, "next-secret-in-the-arena-0123456"...)
			if kg != nil {
				kg = blob[:len(kg)]
			}
			pw = blob[len(c.KG) : len(c.KG)+len(pw)]
		}
	}
	return &bmc.V2SessionOpts{
		SessionOpts: bmc.SessionOpts{
			Username:          c.User,
			Password:          pw,
			MaxPrivilegeLevel: ipmi.PrivilegeLevel(c.Priv),
		},
		PrivilegeLevelLookup: c.Lookup,
		KG:                   kg,
		CipherSuites:         []ipmi.CipherSuite{LibSuite(c.Suite)},
	}
}

func private(b []byte) []byte {
	if b == nil {
		return nil
	}
	return append(make([]byte, 0, len(b)), b...)
}

// Install configures the BMC with the credentials' user and KG.
func (c Creds) Install(b *simbmc.BMC) {
	// the BMC has its own copies of the secrets
	b.Users[c.User] = private(c.Password)
	b.KG = private(c.KG)
	if c.DefaultSuites && IsLibraryDefault(c.Suite) {
		// the BMC advertises exactly the suite to be negotiated
		b.SuiteRecords = (&ref.SuiteRecord{ID: 3, Auth: c.Suite.Auth, Integs: []byte{c.Suite.Integ}, Confs: []byte{c.Suite.Conf}}).Bytes()
	}
}

// NewWorldFor builds a world whose BMC knows the credentials.
func NewWorldFor(c Creds, strict bool) *World {
	w := NewWorld(c.Seed, strict)
	c.Install(w.BMC)
	return w
}

// IntegHash returns a hash.Hash computing the per-packet AuthCode of a reference
// integrity algorithm under k1 (nil for none).
func IntegHash(integ uint8, k1 []byte) hash.Hash {
	if integ == ref.IntegNone {
		return nil
	}
	return &integHash{integ: integ, k1: append([]byte(nil), k1...)}
}

type integHash struct {
	integ uint8
	k1    []byte
	buf   []byte
}

func (h *integHash) Write(p []byte) (int, error) { h.buf = append(h.buf, p...); return len(p), nil }
func (h *integHash) Sum(b []byte) []byte         { return append(b, ref.IntegSum(h.integ, h.k1, h.buf)...) }
func (h *integHash) Reset()                      { h.buf = h.buf[:0] }
func (h *integHash) Size() int                   { return ref.IntegLen(h.integ) }
func (h *integHash) BlockSize() int              { return 64 }

// TruncHMACSHA1 is HMAC-SHA1-96 built from the standard library's stateful
// hmac, the way the library builds its integrity hash.
func TruncHMACSHA1(k1 []byte) hash.Hash { return truncHash{hmac.New(sha1.New, k1), 12} }

type truncHash struct {
	hash.Hash
	n int
}

func (t truncHash) Sum(b []byte) []byte { return t.Hash.Sum(b)[:len(b)+t.n] }
func (t truncHash) Size() int           { return t.n }
