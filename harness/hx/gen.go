package hx

import (
	"pgregory.net/rapid"

	"verif/harness/ref"
)

func b(t *rapid.T, l string) bool           { return rapid.Bool().Draw(t, l) }
func u8(t *rapid.T, l string) byte          { return rapid.Byte().Draw(t, l) }
func un(t *rapid.T, l string, max int) byte { return byte(rapid.IntRange(0, max).Draw(t, l)) }
func u16(t *rapid.T, l string) uint16       { return rapid.Uint16().Draw(t, l) }
func u32(t *rapid.T, l string) uint32       { return rapid.Uint32().Draw(t, l) }

func arr4(t *rapid.T, l string) (a [4]byte) {
	copy(a[:], rapid.SliceOfN(rapid.Byte(), 4, 4).Draw(t, l))
	return
}

func GenDeviceID() *rapid.Generator[ref.DeviceID] {
	return rapid.Custom(func(t *rapid.T) ref.DeviceID {
		d := ref.DeviceID{
			ID: u8(t, "id"), ProvidesSDRs: b(t, "sdrs"), Rev: un(t, "rev", 15), Unavailable: b(t, "unavail"),
			FwMajor: un(t, "fwmaj", 127), FwMinor: un(t, "fwmin", 99), IPMIMajor: un(t, "ipmimaj", 15), IPMIMinor: un(t, "ipmimin", 15),
			Chassis: b(t, "chassis"), Bridge: b(t, "bridge"), EvtGen: b(t, "evtgen"), EvtRcv: b(t, "evtrcv"),
			FRU: b(t, "fru"), SEL: b(t, "sel"), SDRRepo: b(t, "sdrrepo"), Sensor: b(t, "sensor"),
			IANA: u32(t, "iana") & 0xFFFFFF, Product: u16(t, "product"),
		}
		if b(t, "hasAux") {
			a := arr4(t, "aux")
			d.Aux = &a
		}
		return d
	})
}

func GenChanAuthCap() *rapid.Generator[ref.ChanAuthCap] {
	return rapid.Custom(func(t *rapid.T) ref.ChanAuthCap {
		return ref.ChanAuthCap{
			Channel: un(t, "channel", 15), Ext: b(t, "ext"), OEMAuth: b(t, "oem"), Password: b(t, "pw"), MD5: b(t, "md5"), MD2: b(t, "md2"), None: b(t, "none"),
			KG: b(t, "kg"), PerMsgBit: b(t, "permsg"), UserLevelBit: b(t, "userlevel"), NonNull: b(t, "nonnull"), Null: b(t, "null"), Anon: b(t, "anon"),
			V2: b(t, "v2"), V15: b(t, "v15"), OEMIANA: u32(t, "iana") & 0xFFFFFF, OEMAux: u8(t, "aux"),
		}
	})
}

func GenSessionInfo() *rapid.Generator[ref.SessionInfo] {
	return rapid.Custom(func(t *rapid.T) ref.SessionInfo {
		s := ref.SessionInfo{Max: u8(t, "max"), Active: u8(t, "active")}
		s.Form = rapid.SampledFrom([]int{3, 6, 18}).Draw(t, "form")
		if s.Form == 3 {
			// "no active session": the handle is 0 (22.20: remaining bytes only
			// returned if there is an active session for the given handle/index)
			s.Handle = 0
			return s
		}
		s.Handle = u8(t, "handle")
		s.User, s.Priv, s.Version, s.Channel = un(t, "user", 63), un(t, "priv", 15), un(t, "version", 15), un(t, "chan", 15)
		if s.Form == 18 {
			s.IP = arr4(t, "ip")
			copy(s.MAC[:], rapid.SliceOfN(rapid.Byte(), 6, 6).Draw(t, "mac"))
			s.Port = u16(t, "port")
		}
		return s
	})
}

func GenChassisStatus() *rapid.Generator[ref.ChassisStatus] {
	return rapid.Custom(func(t *rapid.T) ref.ChassisStatus {
		c := ref.ChassisStatus{
			Policy: un(t, "policy", 3), CtlFault: b(t, "ctlfault"), Fault: b(t, "fault"), Interlock: b(t, "interlock"), Overload: b(t, "overload"), On: b(t, "on"),
			IPMIOn: b(t, "ipmion"), LFault: b(t, "lfault"), LInterlock: b(t, "linterlock"), LOverload: b(t, "loverload"), LACFail: b(t, "lac"),
			IdentSupported: b(t, "identsup"), IdentState: un(t, "identstate", 3), Fan: b(t, "fan"), Drive: b(t, "drive"), Lockout: b(t, "lockout"), Intrusion: b(t, "intrusion"),
		}
		if b(t, "hasButtons") {
			x := u8(t, "buttons")
			c.Buttons = &x
		}
		return c
	})
}

func GenSDRRepoInfo() *rapid.Generator[ref.SDRRepoInfo] {
	return rapid.Custom(func(t *rapid.T) ref.SDRRepoInfo {
		return ref.SDRRepoInfo{
			VerMajor: un(t, "vmaj", 9), VerMinor: un(t, "vmin", 9), Count: u16(t, "count"), Free: u16(t, "free"),
			AddTS: u32(t, "add"), EraseTS: u32(t, "erase"), Overflow: b(t, "overflow"), ModalBits: un(t, "modal", 3),
			Delete: b(t, "delete"), PartialAdd: b(t, "partial"), Reserve: b(t, "reserve"), AllocInfo: b(t, "alloc"),
		}
	})
}

func GenSensorReading() *rapid.Generator[ref.SensorReading] {
	return rapid.Custom(func(t *rapid.T) ref.SensorReading {
		s := ref.SensorReading{Reading: u8(t, "reading"), Events: b(t, "events"), Scanning: b(t, "scanning"), Unavailable: b(t, "unavail"), State1: u8(t, "state1")}
		if b(t, "hasState2") {
			x := u8(t, "state2")
			s.State2 = &x
		}
		return s
	})
}

func GenDCMIPower() *rapid.Generator[ref.DCMIPower] {
	return rapid.Custom(func(t *rapid.T) ref.DCMIPower {
		return ref.DCMIPower{Cur: u16(t, "cur"), Min: u16(t, "min"), Max: u16(t, "max"), Avg: u16(t, "avg"), TS: u32(t, "ts"), PeriodMS: u32(t, "period"), Active: b(t, "active")}
	})
}

// GenIDString draws an ID string of 0..31 characters in any of the four
// encodings. An 8-bit string of exactly one character is reserved by the
// specification (43.15) and not generated.
func GenIDString() *rapid.Generator[ref.IDString] {
	return rapid.Custom(func(t *rapid.T) ref.IDString {
		s := ref.IDString{Enc: un(t, "enc", 3)}
		n := rapid.IntRange(0, 30).Draw(t, "chars")
		if (s.Enc == ref.Enc8Bit || s.Enc == ref.EncUnicode) && n == 1 {
			n = 2
		}
		s.Codes = make([]byte, n)
		for i := range s.Codes {
			switch s.Enc {
			case ref.EncBCDPlus:
				s.Codes[i] = un(t, "c", 15)
			case ref.Enc6Bit:
				s.Codes[i] = un(t, "c", 63)
			default:
				// 8-bit ASCII + Latin-1: printable ASCII keeps both readings of
				// bytes >= 0x80 out of the comparison (see C20)
				s.Codes[i] = byte(rapid.IntRange(0x20, 0x7e).Draw(t, "c"))
			}
		}
		return s
	})
}

func tcRange(t *rapid.T, l string, bits uint) int {
	lo, hi := -(1 << (bits - 1)), 1<<(bits-1)-1
	return rapid.IntRange(lo, hi).Draw(t, l)
}

// GenFSR draws a Full Sensor Record with every decoded field and filler bytes.
func GenFSR() *rapid.Generator[ref.FSR] {
	return rapid.Custom(func(t *rapid.T) ref.FSR {
		f := ref.FSR{
			Owner: u8(t, "owner"), Channel: un(t, "channel", 15), LUN: un(t, "lun", 3), Number: u8(t, "number"),
			Entity: u8(t, "entity"), Logical: b(t, "logical"), Instance: un(t, "instance", 127), Ignore: b(t, "ignore"),
			SensorType: u8(t, "stype"), ReadingType: u8(t, "rtype"), Format: un(t, "format", 3), Rate: un(t, "rate", 7),
			Percentage: b(t, "pct"), BaseUnit: u8(t, "base"), ModUnit: u8(t, "mod"), Lin: un(t, "lin", 127),
			M: tcRange(t, "M", 10), B: tcRange(t, "B", 10), Tol: un(t, "tol", 63), Acc: tcRange(t, "acc", 10),
			AccExp: un(t, "accexp", 3), Dir: un(t, "dir", 3), K2: tcRange(t, "K2", 4), K1: tcRange(t, "K1", 4),
			NominalSpec: b(t, "nomspec"), NormalMaxSpec: b(t, "nmaxspec"), NormalMinSpec: b(t, "nminspec"),
			Nominal: u8(t, "nominal"), NormalMax: u8(t, "nmax"), NormalMin: u8(t, "nmin"), SensorMax: u8(t, "smax"), SensorMin: u8(t, "smin"),
		}
		copy(f.Filler[:], rapid.SliceOfN(rapid.Byte(), 43, 43).Draw(t, "filler"))
		f.ID = GenIDString().Draw(t, "id")
		return f
	})
}
