package hx

import (
	"fmt"

	"verif/harness/memnet"
	"verif/harness/ref"
	"verif/harness/simbmc"
)

// Outcome is what the BMC does with one received request.
type Outcome int

const (
	Final          Outcome = iota // normal completion code, good body
	FinalCC                       // a non-temporary, non-zero completion code, no body
	FinalTruncated                // normal completion code, body cut short
	Busy                          // 0xC0 node busy
	TimeoutCC                     // 0xC3 timeout
	Garbage                       // a datagram that cannot be decoded
	BadSig                        // in-session: authentic packet with a corrupted AuthCode
	Lost                          // no reply
	StrayOK                       // a well-formed (in-session: authentic) reply to a different command, normal code
	StrayBusy                     // the same carrying the temporary code 0xC0
	StraySetup                    // a delayed RMCP+ session-setup packet (RAKP Message 4 / Open Session Response) outside any session
	StrayASF                      // an RMCP packet of another class (ASF presence pong) or an RMCP ACK
)

var outcomeNames = map[Outcome]string{Final: "final", FinalCC: "final-cc", FinalTruncated: "final-truncated", Busy: "busy", TimeoutCC: "timeout-code", Garbage: "garbage", BadSig: "bad-signature", Lost: "lost", StrayOK: "stray-reply", StrayBusy: "stray-reply-busy", StraySetup: "stray-setup-packet", StrayASF: "stray-asf-or-ack"}

func (o Outcome) String() string { return outcomeNames[o] }

// IsFinalReply reports whether the outcome is a valid response with a
// non-temporary completion code.
func (o Outcome) IsFinalReply() bool { return o == Final || o == FinalCC || o == FinalTruncated }

// FinalCCValue is the completion code used for FinalCC (parameter out of range).
const FinalCCValue = 0xC9

// Scripter applies a per-request outcome script to the BMC's IPMI exchanges.
type Scripter struct {
	Script   []Outcome
	Pos      int
	Applied  []Outcome // outcomes applied so far, in order
	Received []*simbmc.Rx
	// OnlySession, if set, restricts the script to requests of that session.
	Match func(rx *simbmc.Rx) bool
	// FinalCode, if non-zero, is the completion code FinalCC replies carry
	// instead of FinalCCValue.
	FinalCode byte
}

// Install hooks the scripter into the BMC (replacing any Intercept).
func (s *Scripter) Install(b *simbmc.BMC) {
	b.Intercept = func(b *simbmc.BMC, rx *simbmc.Rx) {
		if rx.Pkt != nil && rx.Pkt.PayloadType != ref.PTIPMI {
			return // RMCP+ session setup payloads are not scripted
		}
		if s.Match != nil && !s.Match(rx) {
			return
		}
		s.Received = append(s.Received, rx)
		o := Final
		if s.Pos < len(s.Script) {
			o = s.Script[s.Pos]
		}
		s.Pos++
		s.Applied = append(s.Applied, o)
		cc := byte(FinalCCValue)
		if s.FinalCode != 0 {
			cc = s.FinalCode
		}
		applyOutcome(b, rx, o, cc)
	}
}

// ApplyOutcome rewrites rx.Replies according to the outcome. A request the BMC
// could not parse gets no reply whatever the outcome says.
func ApplyOutcome(b *simbmc.BMC, rx *simbmc.Rx, o Outcome) { applyOutcome(b, rx, o, FinalCCValue) }

func applyOutcome(b *simbmc.BMC, rx *simbmc.Rx, o Outcome, finalCode byte) {
	if rx.Msg == nil || rx.Msg.IsResponse() {
		rx.Replies = nil
		return
	}
	var sess *simbmc.Session
	if rx.Pkt != nil && rx.Pkt.SessionID != 0 {
		sess = rx.Sess
	}
	reply := func(cc byte, body []byte) []memnet.Out {
		return []memnet.Out{b.Wrap(sess, b.ResponseFor(rx.Msg, cc, body).Bytes())}
	}
	switch o {
	case Final:
		// keep the default reply
	case FinalCC:
		rx.Replies = reply(finalCode, nil)
	case FinalTruncated:
		// cut the default body to zero bytes (one byte when the command's
		// response decoder has no minimum is still a valid cut for all layers
		// used here, which need >= 1 byte)
		rx.Replies = reply(0, nil)
	case Busy:
		rx.Replies = reply(0xC0, nil)
	case TimeoutCC:
		rx.Replies = reply(0xC3, nil)
	case Garbage:
		// an undecodable reply: random bytes behind a plausible header, or the
		// genuine reply cut short at a random position, or (in a session with
		// integrity) the genuine reply with a byte appended behind the AuthCode
		style := b.Rand.Intn(6)
		switch {
		case style == 4:
			// IPMI-class RMCP header followed by something that is not an RMCP+
			// wrapper (e.g. an IPMI v1.5 session header: authentication type 0, 1, 2, 4, 5)
			g := append([]byte{0x06, 0x00, 0xff, 0x07, []byte{0x00, 0x01, 0x02, 0x04, 0x05, 0x16, 0xff}[b.Rand.Intn(7)]}, b.Rand.Bytes(9+b.Rand.Intn(20))...)
			rx.Replies = []memnet.Out{{Data: g}}
		case style == 5:
			// a runt: fewer bytes than an RMCP header
			rx.Replies = []memnet.Out{{Data: b.Rand.Bytes(b.Rand.Intn(4))}}
		case style == 2 && len(rx.Replies) > 0 && len(rx.Replies[0].Data) > 1:
			d := rx.Replies[0].Data
			rx.Replies = []memnet.Out{{Data: append([]byte(nil), d[:b.Rand.Intn(len(d))]...)}}
		case style == 3 && len(rx.Replies) > 0 && sess != nil && sess.Suite.Integ != ref.IntegNone:
			d := append(append([]byte(nil), rx.Replies[0].Data...), b.Rand.Bytes(1)...)
			rx.Replies = []memnet.Out{{Data: d}}
		default:
			g := append([]byte{0x06, 0x00, 0xff, 0x07, 0x06, 0x00}, b.Rand.Bytes(3+b.Rand.Intn(20))...)
			rx.Replies = []memnet.Out{{Data: g}}
		}
	case BadSig:
		if len(rx.Replies) > 0 && sess != nil && sess.Suite.Integ != ref.IntegNone {
			d := append([]byte(nil), rx.Replies[0].Data...)
			d[len(d)-1] ^= 0x01
			rx.Replies = []memnet.Out{{Data: d}}
		} else {
			g := append([]byte{0x06, 0x00, 0xff, 0x07, 0x06, 0x00}, b.Rand.Bytes(5)...)
			rx.Replies = []memnet.Out{{Data: g}}
		}
	case Lost:
		rx.Replies = nil
	case StraySetup:
		pt, payload := uint8(ref.PTRAKP4), append([]byte{0x00, 0x00, 0x00, 0x00, 0x01, 0x00, 0x00, 0x00}, b.Rand.Bytes(12)...)
		if b.Rand.Intn(2) == 0 {
			pt, payload = ref.PTOpenRsp, (&ref.OpenRsp{Tag: 0, SIDM: 1, SIDC: 0x02030405, Priv: 4, Algs: [3]byte{1, 1, 1}}).Bytes()
		}
		rx.Replies = []memnet.Out{{Data: ref.BuildPacket(&ref.Packet{PayloadType: pt, Payload: payload}, 0, nil)}}
	case StrayASF:
		if b.Rand.Intn(2) == 0 {
			// ASF presence pong (RMCP class 6)
			rx.Replies = []memnet.Out{{Data: []byte{0x06, 0x00, 0xff, 0x06, 0x00, 0x00, 0x11, 0xbe, 0x40, 0x00, 0x00, 0x10, 0x00, 0x00, 0x11, 0xbe, 0x00, 0x00, 0x00, 0x00, 0x81, 0x00, 0x00, 0x00, 0x00, 0x00, 0x00, 0x00}}}
		} else {
			// RMCP ACK for sequence number 0x2a, IPMI class
			rx.Replies = []memnet.Out{{Data: []byte{0x06, 0x00, 0x2a, 0x87}}}
		}
	case StrayOK, StrayBusy:
		// Get Channel Info (App 0x42) unless that is what was asked; then Get
		// Channel Access (0x41): neither is used by the checks' commands
		other := *rx.Msg
		other.Cmd, other.NetFn, other.Data = 0x42, ref.NetFnApp, nil
		if rx.Msg.NetFn == ref.NetFnApp && rx.Msg.Cmd == 0x42 {
			other.Cmd = 0x41
		}
		// the other command may also belong to a group extension (a DCMI reply,
		// body code 0xDC) or to an OEM network function (enterprise number)
		switch b.Rand.Intn(4) {
		case 0:
			if rx.Msg.NetFn != ref.NetFnGroup {
				other.NetFn, other.Cmd, other.Data = ref.NetFnGroup, 0x02, []byte{0xDC}
			}
		case 1:
			if rx.Msg.NetFn != ref.NetFnOEM {
				other.NetFn, other.Cmd, other.Data = ref.NetFnOEM, 0x30, []byte{0x57, 0x01, 0x00}
			}
		}
		cc := byte(0)
		if o == StrayBusy {
			cc = 0xC0
		}
		rx.Replies = []memnet.Out{b.Wrap(sess, b.ResponseFor(&other, cc, []byte{1, 4, 0x81, 2, 0, 0, 0, 0, 0}).Bytes())}
	}
}

// Expected is the reference model of the documented retry contract
// (Connection.SendCommand) for one call.
type Expected struct {
	Transmissions int
	ErrNil        bool
	Code          byte // meaningful when a final reply was reached
	HasCode       bool
	Value         bool // the response value must equal the BMC's
}

// Model evaluates the contract for a script. inSession selects the in-session
// rule for a lost reply (error, no further transmission). hasBody tells whether
// the command expects a response body. The context ends inside the last scripted
// transmission.
func Model(script []Outcome, inSession, hasBody bool) Expected {
	for i, o := range script {
		switch {
		case o == Final:
			return Expected{Transmissions: i + 1, ErrNil: true, HasCode: true, Code: 0, Value: true}
		case o == FinalCC:
			return Expected{Transmissions: i + 1, ErrNil: !hasBody, HasCode: true, Code: FinalCCValue}
		case o == FinalTruncated:
			return Expected{Transmissions: i + 1, ErrNil: !hasBody, HasCode: true, Code: 0, Value: !hasBody}
		case o == Lost && inSession:
			return Expected{Transmissions: i + 1, ErrNil: false}
		}
	}
	return Expected{Transmissions: len(script), ErrNil: false}
}

// ScriptString renders a script compactly.
func ScriptString(s []Outcome) string {
	out := ""
	for i, o := range s {
		if i > 0 {
			out += ","
		}
		out += o.String()
	}
	return fmt.Sprintf("[%s]", out)
}

// EnumScripts enumerates all outcome sequences over the alphabet of exactly the
// given length.
func EnumScripts(alphabet []Outcome, length int) [][]Outcome {
	if length == 0 {
		return [][]Outcome{{}}
	}
	var out [][]Outcome
	for _, rest := range EnumScripts(alphabet, length-1) {
		for _, a := range alphabet {
			s := append(append([]Outcome(nil), rest...), a)
			out = append(out, s)
		}
	}
	return out
}
