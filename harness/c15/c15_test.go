// C15: sensor readings are converted with the specification's formula.
package c15

import (
	"context"
	"errors"
	"fmt"
	"math"
	"math/big"
	"os"
	"strconv"
	"testing"

	"github.com/gebn/bmc"
	"github.com/gebn/bmc/pkg/ipmi"
	"github.com/google/gopacket"

	"verif/harness/evid"
	"verif/harness/hx"
	"verif/harness/ref"
)

var ev *evid.E

func TestMain(m *testing.M) {
	ev = evid.New("C15", "exploration",
		"for each (analog format 0..2) x (linearisation 0..11) x factor tuple (M, B, K1, K2) a Full Sensor Record is encoded by the reference, decoded by the library, turned into a "+
			"SensorReader and read over a real session for all 256 raw bytes served by the simulated BMC; tuples: boundary values {-512,-511,-1,0,1,511}^2 x {-8,-7,-1,0,1,7}^2 "+
			"(complete with all 256 raw bytes in the thorough tier; in quick a pairwise-covering subset plus pseudo-random tuples, all 256 raw bytes for every 10th combination and boundary + sampled bytes otherwise). Oracle: exact big.Rat evaluation of (M*x + B*10^K1)*10^K2 with x per the "+
			"format, forward rounding bound, monotone interval for L widened by a relative 1e-12, NaN/Inf exactly where L is undefined/singular; all 8 flag combinations and 3/4-byte replies; "+
			"constructor refusals for non-linear codes >= 0x70 and format 3. Non-trivial = M != 0 and raw != 0; distinct by (format, L, tuple, raw)")
	ev.Assume("cube root of a negative value: both the real root and NaN are accepted (the specification names no domain)",
		"reserved linearisation codes 0x0C..0x6F are not asserted")
	evid.Main(m, ev)
}

func rawValue(format int, raw int) int64 {
	switch format {
	case 1:
		if raw&0x80 != 0 {
			return -int64(^raw & 0xff)
		}
	case 2:
		if raw >= 128 {
			return int64(raw) - 256
		}
	}
	return int64(raw)
}

func pow10Rat(k int) *big.Rat {
	r := big.NewRat(1, 1)
	ten := big.NewRat(10, 1)
	if k < 0 {
		ten = big.NewRat(1, 10)
		k = -k
	}
	for i := 0; i < k; i++ {
		r.Mul(r, ten)
	}
	return r
}

// exact returns y and the rounding bound delta as floats.
func exact(M, B, K1, K2 int, x int64) (y float64, delta float64) {
	mx := new(big.Rat).SetInt64(int64(M) * x)
	b := new(big.Rat).Mul(new(big.Rat).SetInt64(int64(B)), pow10Rat(K1))
	sum := new(big.Rat).Add(mx, b)
	sum.Mul(sum, pow10Rat(K2))
	y, _ = sum.Float64()
	amx, _ := new(big.Rat).Abs(mx).Float64()
	ab, _ := new(big.Rat).Abs(b).Float64()
	p, _ := pow10Rat(K2).Float64()
	delta = 4 * 0x1p-52 * (amx + ab) * p
	return
}

func widen(lo, hi float64) (float64, float64) {
	if lo > hi {
		lo, hi = hi, lo
	}
	w := func(v float64, dir float64) float64 {
		if math.IsInf(v, 0) || math.IsNaN(v) {
			return v
		}
		// relative slack of 1e-12: the library's linearisers are built from
		// math.Pow (e.g. x^(1/3) with the exponent rounded to a float64), whose
		// result differs from the correctly rounded function by a few ulp times
		// |ln x|; that is floating-point rounding, not a wrong formula
		return v + dir*(math.Abs(v)*1e-12+5e-324)
	}
	return w(lo, -1), w(hi, 1)
}

// accept says whether the library's value is an acceptable L(y).
func accept(lin int, y, delta, got float64) (bool, string) {
	lo, hi := y-delta, y+delta
	in := func(a, b float64) (bool, string) {
		a, b = widen(a, b)
		if math.IsNaN(got) {
			return false, fmt.Sprintf("NaN, want a value in [%v, %v]", a, b)
		}
		return got >= a && got <= b, fmt.Sprintf("want a value in [%v, %v]", a, b)
	}
	switch lin {
	case 0:
		return in(lo, hi)
	case 1, 2, 3: // ln, log10, log2
		f := []func(float64) float64{nil, math.Log, math.Log10, math.Log2}[lin]
		if hi < 0 {
			return math.IsNaN(got), "want NaN (logarithm of a negative value)"
		}
		if lo <= 0 {
			// straddles the singular point within rounding: -Inf, NaN or anything below L(hi)
			if hi == 0 {
				return math.IsInf(got, -1) || math.IsNaN(got), "want -Inf"
			}
			_, b := widen(f(hi), f(hi))
			return math.IsNaN(got) || got <= b, "want <= L(y+delta)"
		}
		return in(f(lo), f(hi))
	case 4, 5, 6: // e^x, 10^x, 2^x
		f := []func(float64) float64{math.Exp, func(v float64) float64 { return math.Pow(10, v) }, math.Exp2}[lin-4]
		return in(f(lo), f(hi))
	case 7: // 1/x
		if lo <= 0 && hi >= 0 {
			if lo == 0 && hi == 0 {
				return math.IsInf(got, 0), "want an infinity (1/0)"
			}
			return true, ""
		}
		return in(1/hi, 1/lo)
	case 8: // x^2
		if lo <= 0 && hi >= 0 {
			return in(0, math.Max(lo*lo, hi*hi))
		}
		return in(lo*lo, hi*hi)
	case 9: // x^3
		return in(lo*lo*lo, hi*hi*hi)
	case 10: // sqrt
		if hi < 0 {
			return math.IsNaN(got), "want NaN (square root of a negative value)"
		}
		if lo < 0 {
			_, b := widen(math.Sqrt(hi), math.Sqrt(hi))
			return math.IsNaN(got) || (got >= 0 && got <= b), "want NaN or a value up to sqrt(y+delta)"
		}
		return in(math.Sqrt(lo), math.Sqrt(hi))
	case 11: // cube root
		if lo < 0 && math.IsNaN(got) {
			return true, ""
		}
		return in(math.Cbrt(lo), math.Cbrt(hi))
	}
	return false, "unknown linearisation"
}

type tuple struct{ M, B, K1, K2 int }

func tuples() []tuple {
	mb := []int{-512, -511, -1, 0, 1, 511}
	ks := []int{-8, -7, -1, 0, 1, 7}
	var all []tuple
	for _, m := range mb {
		for _, b := range mb {
			for _, k1 := range ks {
				for _, k2 := range ks {
					all = append(all, tuple{m, b, k1, k2})
				}
			}
		}
	}
	if ev.Thorough() {
		// shards split the boundary set
		shard, _ := strconv.Atoi(os.Getenv("VERIF_SHARD"))
		shards, _ := strconv.Atoi(os.Getenv("VERIF_SHARDS"))
		if shards > 1 {
			var mine []tuple
			for i, t := range all {
				if i%shards == shard {
					mine = append(mine, t)
				}
			}
			all = mine
		}
		return all
	}
	// quick: pairwise-covering subset of the boundary product - every (B, K1)
	// pair and every (M, K2) pair of boundary values occurs, the other two
	// factors chosen by the seed - plus 8 pseudo-random tuples
	var out []tuple
	s := uint64(ev.Seed)*0x9E3779B97F4A7C15 + 1
	next := func(n int) int {
		s = s*6364136223846793005 + 1442695040888963407
		return int((s >> 33) % uint64(n))
	}
	for _, b := range mb {
		for _, k1 := range ks {
			out = append(out, tuple{mb[next(6)], b, k1, ks[next(6)]})
		}
	}
	for _, m := range mb {
		for _, k2 := range ks {
			out = append(out, tuple{m, mb[next(6)], ks[next(6)], k2})
		}
	}
	for i := 0; i < 8; i++ {
		out = append(out, tuple{next(1024) - 512, next(1024) - 512, next(16) - 8, next(16) - 8})
	}
	return out
}

// raws returns the raw bytes read for the n-th (tuple, format, linearisation)
// combination: all 256 in the thorough tier and for every 10th combination in
// quick, otherwise the boundary bytes plus a seed-dependent sample.
func raws(n int) []int {
	if ev.Thorough() || n%10 == 0 {
		all := make([]int, 256)
		for i := range all {
			all[i] = i
		}
		return all
	}
	out := []int{0, 1, 2, 0x3f, 0x40, 0x7e, 0x7f, 0x80, 0x81, 0xc0, 0xfe, 0xff}
	s := uint64(n)*0x9E3779B97F4A7C15 + uint64(ev.Seed)
	for i := 0; i < 20; i++ {
		s = s*6364136223846793005 + 1442695040888963407
		out = append(out, int(s>>40)&0xff)
	}
	return out
}

func fail(t *testing.T, c any, msg string) {
	t.Helper()
	ev.Violation("TestConversion", c, msg)
	t.Fatalf("%v: %s", c, msg)
}

func TestConversion(t *testing.T) {
	c := hx.Creds{User: "admin", Password: []byte("pw"), Priv: 4, Suite: hx.Suites9()[int(ev.Seed)%9], Seed: uint64(ev.Seed) + 5}
	w := hx.NewWorldFor(c, true)
	sess, err := w.T.NewV2Session(context.Background(), c.Opts())
	if err != nil {
		t.Fatalf("harness: %v", err)
	}
	ctx := context.Background()
	dom := ev.Domain("raw x format x linearisation", 256*3*12)
	n := 0
	for _, tp := range tuples() {
		for format := 0; format < 3; format++ {
			for lin := 0; lin < 12; lin++ {
				n++
				num, lun := byte(n*7), byte(n%4)
				f := ref.FSR{Owner: 0x20, LUN: lun, Number: num, Format: byte(format), Lin: byte(lin), M: tp.M, B: tp.B, K1: tp.K1, K2: tp.K2,
					Tol: byte(n), Acc: (n*37)%1024 - 512, AccExp: byte(n % 4), ID: ref.IDString{Enc: ref.Enc6Bit, Codes: []byte{1, 2, 3}}}
				for i := range f.Filler {
					f.Filler[i] = byte(n*31 + i*17)
				}
				// the record's informative fields (nominal / normal / sensor minimum
				// and maximum, in raw units) take all kinds of values, narrow ranges
				// included; the conversion of a reading does not depend on them
				f.SensorMin, f.SensorMax = byte(n*13), byte(n*13+1+n%97)
				f.Nominal, f.NormalMin, f.NormalMax = byte(n*5), byte(n*3), byte(n*3+n%41)
				f.NominalSpec, f.NormalMinSpec, f.NormalMaxSpec = n%2 == 0, n%3 == 0, n%5 == 0
				var rec ipmi.FullSensorRecord
				if err := rec.DecodeFromBytes(f.Body(), gopacket.NilDecodeFeedback); err != nil {
					fail(t, f, "record does not decode: "+err.Error())
				}
				reader, err := bmc.NewSensorReader(&rec)
				if err != nil {
					fail(t, map[string]any{"format": format, "lin": lin}, "no reader for a linear/linearised analog sensor: "+err.Error())
				}
				if n%2 == 0 {
					// the caller goes on to use the record value for the next SDR (a
					// reusable decoding layer): the reader was built from what the
					// record held when it was made
					other := ref.FSR{Owner: 0x20, Number: num + 1, Format: byte((format + 1) % 3), Lin: byte((lin + 5) % 12), M: -tp.M/2 + 7, B: tp.B/3 - 11, K1: -tp.K1 / 2, K2: (tp.K2 + 9) % 8,
						ID: ref.IDString{Enc: ref.Enc8Bit, Codes: []byte("next record")}}
					if err := rec.DecodeFromBytes(other.Body(), gopacket.NilDecodeFeedback); err != nil {
						fail(t, other, "harness: second record does not decode: "+err.Error())
					}
					ev.Label("record-value-reused-after-reader-was-built")
				}
				for _, raw := range raws(n) {
					st2 := byte(raw)
					rd := ref.SensorReading{Reading: byte(raw), Scanning: true, Events: raw%2 == 0, State1: byte(raw * 3)}
					if raw%3 == 0 {
						rd.State2 = &st2
					}
					w.BMC.Data.Sensors = map[uint16]ref.SensorReading{uint16(lun)<<8 | uint16(num): rd}
					got, err := reader.Read(ctx, sess)
					ev.Eval()
					dom.Visit((raw*3+format)*12 + lin)
					cs := map[string]any{"M": tp.M, "B": tp.B, "K1": tp.K1, "K2": tp.K2, "format": format, "lin": lin, "raw": raw}
					if err != nil {
						fail(t, cs, "Read failed: "+err.Error())
					}
					x := rawValue(format, raw)
					y, delta := exact(tp.M, tp.B, tp.K1, tp.K2, x)
					if ok, why := accept(lin, y, delta, got); !ok {
						fail(t, cs, fmt.Sprintf("Read returned %v for x=%d, exact y=%v (+-%v): %s", got, x, y, delta, why))
					}
					if tp.M != 0 && raw != 0 {
						ev.NonTrivial(fmt.Sprintf("%v|%d|%d|%d", tp, format, lin, raw))
					}
				}
				w.BMC.Log = w.BMC.Log[:0]
				w.Net.Sent, w.Net.Delivered = nil, nil
				if n%97 == 1 {
					ev.Sample(map[string]any{"M": tp.M, "B": tp.B, "K1": tp.K1, "K2": tp.K2, "format": format, "linearisation": lin, "raws": "0..255"})
				}
			}
		}
		ev.Label("tuple")
	}
}

func TestFlagsAndRefusals(t *testing.T) {
	c := hx.Creds{User: "admin", Password: []byte("pw"), Priv: 4, Suite: hx.Suites9()[0], Seed: 77}
	w := hx.NewWorldFor(c, true)
	sess, err := w.T.NewV2Session(context.Background(), c.Opts())
	if err != nil {
		t.Fatalf("harness: %v", err)
	}
	mk := func(format, lin byte) (*ipmi.FullSensorRecord, error) {
		f := ref.FSR{Number: 9, LUN: 1, Format: format, Lin: lin, M: 2, B: 1, ID: ref.IDString{Enc: ref.Enc6Bit}}
		var rec ipmi.FullSensorRecord
		return &rec, rec.DecodeFromBytes(f.Body(), gopacket.NilDecodeFeedback)
	}
	for lin := 0; lin < 12; lin += 5 {
		rec, err := mk(0, byte(lin))
		if err != nil {
			t.Fatalf("decode: %v", err)
		}
		reader, err := bmc.NewSensorReader(rec)
		if err != nil {
			t.Fatalf("reader: %v", err)
		}
		for flags := 0; flags < 8; flags++ {
			for _, four := range []bool{false, true} {
				rd := ref.SensorReading{Reading: 10, Events: flags&4 != 0, Scanning: flags&2 != 0, Unavailable: flags&1 != 0}
				if four {
					x := byte(0xAA)
					rd.State2 = &x
				}
				w.BMC.Data.Sensors = map[uint16]ref.SensorReading{1<<8 | 9: rd}
				_, err := reader.Read(context.Background(), sess)
				ev.Eval()
				cs := map[string]any{"events": rd.Events, "scanning": rd.Scanning, "unavailable": rd.Unavailable, "fourBytes": four, "lin": lin}
				switch {
				case rd.Unavailable && !rd.Scanning:
					if !errors.Is(err, bmc.ErrSensorReadingUnavailable) && !errors.Is(err, bmc.ErrSensorScanningDisabled) {
						fail(t, cs, fmt.Sprintf("err=%v, want the unavailable or scanning-disabled error", err))
					}
				case rd.Unavailable:
					if !errors.Is(err, bmc.ErrSensorReadingUnavailable) {
						fail(t, cs, fmt.Sprintf("err=%v, want the reading-unavailable error", err))
					}
				case !rd.Scanning:
					if !errors.Is(err, bmc.ErrSensorScanningDisabled) {
						fail(t, cs, fmt.Sprintf("err=%v, want the scanning-disabled error", err))
					}
				default:
					if err != nil {
						fail(t, cs, fmt.Sprintf("err=%v, want none", err))
					}
				}
				ev.NonTrivial(fmt.Sprintf("flags|%d|%v|%d", flags, four, lin))
			}
		}
	}
	// constructor refusals
	for lin := 0; lin < 0x80; lin++ {
		rec, err := mk(0, byte(lin))
		if err != nil {
			t.Fatalf("decode: %v", err)
		}
		_, err = bmc.NewSensorReader(rec)
		ev.Eval()
		if lin <= 11 && err != nil {
			fail(t, map[string]any{"lin": lin}, "reader refused for a linear/linearised code: "+err.Error())
		}
		if lin >= 0x70 && err == nil {
			fail(t, map[string]any{"lin": lin}, "a reader was built for a non-linear sensor")
		}
		ev.NonTrivial(fmt.Sprintf("ctor|%d", lin))
	}
	for lin := 0; lin < 12; lin++ {
		rec, _ := mk(3, byte(lin))
		if _, err := bmc.NewSensorReader(rec); err == nil {
			fail(t, map[string]any{"format": 3, "lin": lin}, "a reader was built for a record without an analog data format")
		}
		ev.Eval()
	}
	ev.Label("flags-and-refusals")
}

func TestCoverage(t *testing.T) {
	ev.RequireLabels(t, 1, "tuple", "flags-and-refusals", "record-value-reused-after-reader-was-built")
}
