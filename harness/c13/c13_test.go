// C13: blocking calls never outlive their context.
package c13

import (
	"context"
	"fmt"
	"strings"
	"sync"
	"testing"
	"time"

	"github.com/gebn/bmc"
	"github.com/gebn/bmc/pkg/dcmi"
	"github.com/gebn/bmc/pkg/ipmi"

	"verif/harness/evid"
	"verif/harness/hx"
	"verif/harness/ref"
	"verif/harness/simbmc"
	"verif/harness/udpnet"
)

var ev *evid.E

func TestMain(m *testing.M) {
	ev = evid.New("C13", "fault_enumeration",
		"real UDP loopback and real clock, library used through DialV2 with no hook: call in {session-less command, NewSession (with discovery), in-session command, session Close, "+
			"RetrieveSDRRepository, dcmi.GetSensorInfo} x fault pattern in {black hole, reply after the per-attempt timeout, garbage on every attempt, 0xC0 forever, truncated handshake "+
			"replies} starting at every step k of the call x per-attempt timeout T in {20, 50} ms x deadline D in {already expired, 0.5T, T, 2.5T, 6T}, plus T = 1.5 s with D in {already expired, 100 ms}. Oracle: measured return time "+
			"<= D + 300 ms (a measurement over the limit is repeated and only 3 of 3 counts; a watchdog at D + 5 s turns a hang into a violation), error non-nil whenever no valid "+
			"final response was delivered. Non-trivial = the fault took effect before completion; distinct by (call, fault, k, T, D)")
	ev.Assume("the quantity under test is wall-clock time: a 300 ms scheduling allowance and confirmation re-runs are used", "cancellation (as opposed to a deadline) while blocked in a read is honoured at the attempt timeout by design")
	evid.Main(m, ev)
}

const allowance = 300 * time.Millisecond

type Case struct {
	Call  string
	Fault string
	K     int
	T     time.Duration
	D     time.Duration // < 0: already expired
	// Prelude, if set, is an earlier call on the same connection (and session)
	// that failed just before the measured one: "timed-out" (its replies were
	// lost), "expired-context" (it was made with an expired context) or
	// "failed-close" (a Close whose replies were lost).
	Prelude string
}

func (c Case) String() string {
	if c.Prelude != "" {
		return fmt.Sprintf("%s/%s/k=%d/T=%v/D=%v/after-%s-call", c.Call, c.Fault, c.K, c.T, c.D, c.Prelude)
	}
	return fmt.Sprintf("%s/%s/k=%d/T=%v/D=%v", c.Call, c.Fault, c.K, c.T, c.D)
}

// env is a BMC + UDP server + dialled connection (+ session).
type env struct {
	b    *simbmc.BMC
	srv  *udpnet.Server
	t    *bmc.V2SessionlessTransport
	sess bmc.Session
}

func newEnv(seed uint64, T time.Duration, withSession bool) (*env, error) {
	c := hx.Creds{User: "admin", Password: []byte("pw"), Priv: 4, Suite: hx.Suites9()[seed%9], Seed: seed}
	b := simbmc.New(seed)
	c.Install(b)
	b.SuiteRecords = append((&ref.SuiteRecord{ID: 17, Auth: 3, Integs: []byte{4}, Confs: []byte{1}}).Bytes(), (&ref.SuiteRecord{ID: 3, Auth: 1, Integs: []byte{1}, Confs: []byte{1}}).Bytes()...)
	// a small repository and DCMI data
	for i := 0; i < 4; i++ {
		f := ref.FSR{Number: byte(i), ID: ref.IDString{Enc: ref.Enc8Bit, Codes: []byte("temp")}}
		b.Data.Repo.Records = append(b.Data.Repo.Records, simbmc.Record{ID: uint16(i + 1), Bytes: f.Record(uint16(i + 1))})
	}
	b.Data.Repo.AddTS, b.Data.Repo.EraseTS = 10, 5
	b.Data.DCMIIDs = map[byte][]uint16{0x37: {1, 2, 3, 4, 5, 6, 7, 8, 9, 10, 11, 12}, 0x03: {20, 21}, 0x07: {30}}
	b.Data.DCMIPage = 4
	srv, err := udpnet.Listen(b)
	if err != nil {
		return nil, err
	}
	t, err := bmc.DialV2(srv.Addr(), bmc.WithTimeout(T))
	if err != nil {
		srv.Close()
		return nil, err
	}
	e := &env{b: b, srv: srv, t: t}
	if withSession {
		ctx, cancel := context.WithTimeout(context.Background(), 5*time.Second)
		defer cancel()
		s, err := t.NewSession(ctx, &bmc.SessionOpts{Username: c.User, Password: c.Password, MaxPrivilegeLevel: ipmi.PrivilegeLevelAdministrator})
		if err != nil {
			e.close()
			return nil, fmt.Errorf("session over UDP: %w", err)
		}
		e.sess = s
	}
	return e, nil
}

func (e *env) close() {
	e.t.Close()
	e.srv.Close()
}

// policy builds the fault policy: requests k, k+1, ... of the call are faulted.
func policy(srv *udpnet.Server, c Case) func(rx *simbmc.Rx) []udpnet.Reply {
	faulted := 0
	return func(rx *simbmc.Rx) []udpnet.Reply {
		n := srv.Received
		var normal []udpnet.Reply
		for _, o := range rx.Replies {
			normal = append(normal, udpnet.Reply{Data: o.Data})
		}
		if n <= c.K { // requests 1..K are answered normally, the fault starts with request K+1
			srv.ValidSent += len(normal)
			return normal
		}
		faulted++
		switch c.Fault {
		case "blackhole":
			return nil
		case "garbage-then-blackhole":
			// one undecodable reply (the library backs off and sends again), then silence
			if faulted == 1 {
				return []udpnet.Reply{{Data: []byte{6, 0, 0xff, 7, 6, 0, 1, 2, 3, 4, 5, 6, 7, 8, 9}}}
			}
			return nil
		case "late":
			for i := range normal {
				normal[i].After = c.T + 15*time.Millisecond
			}
			srv.ValidSent += len(normal)
			return normal
		case "lose-one":
			// only this one request goes unanswered; the BMC answers again afterwards
			if faulted == 1 {
				return nil
			}
			srv.ValidSent += len(normal)
			return normal
		case "late-junk-stream":
			// no reply; instead datagrams that are not even RMCP (empty, two bytes,
			// a wrong first byte) trickle in, each shortly before the attempt's time
			// is up, for four more attempt timeouts
			junk := [][]byte{{}, {0x00, 0x01}, {0x07, 0x00, 0xff, 0x07, 0x06, 0x00, 0, 0, 0, 0, 0, 0, 0, 0, 0, 0}}[faulted%3]
			var out []udpnet.Reply
			for i := 1; i <= 5; i++ {
				out = append(out, udpnet.Reply{Data: junk, After: time.Duration(i) * c.T * 4 / 5})
			}
			return out
		case "garbage-ff-run":
			// garbage of a particular shape: an RMCP+ header with the authenticated
			// flag, an 8-byte payload and then nothing but 0xFF up to 330 bytes
			g := append([]byte{6, 0, 0xff, 7, 6, 0xC0, 0x78, 0x56, 0x34, 0x12, 1, 0, 0, 0, 8, 0}, make([]byte, 8)...)
			for len(g) < 330 {
				g = append(g, 0xFF)
			}
			return []udpnet.Reply{{Data: g}}
		case "garbage":
			return []udpnet.Reply{{Data: []byte{6, 0, 0xff, 7, 6, 0, 1, 2, 3, 4, 5, 6, 7, 8, 9}}}
		case "busy":
			if rx.Msg != nil && !rx.Msg.IsResponse() {
				var s *simbmc.Session
				if rx.Pkt.SessionID != 0 {
					s = rx.Sess
				}
				return []udpnet.Reply{{Data: srv.BMC.Wrap(s, srv.BMC.ResponseFor(rx.Msg, 0xC0, nil).Bytes()).Data}}
			}
			return nil // RMCP+ payloads have no busy code: drop
		case "truncated", "truncated-tail1", "truncated-half", "truncated-to8":
			// the reply's payload is cut short and the wrapper's length field fixed
			// up, so the session wrapper still parses: to 4 bytes, by one byte, to
			// half, or to the 8 bytes that precede a handshake message's variable part
			var out []udpnet.Reply
			for _, r := range normal {
				d := append([]byte(nil), r.Data...)
				if len(d) > 20 {
					pl := len(d) - 16
					keep := map[string]int{"truncated": 4, "truncated-tail1": pl - 1, "truncated-half": pl / 2, "truncated-to8": 8}[c.Fault]
					if keep < pl && keep >= 0 {
						d = d[:16+keep]
						d[14], d[15] = byte(keep), byte(keep>>8)
					}
				}
				out = append(out, udpnet.Reply{Data: d})
			}
			return out
		}
		return normal
	}
}

type outcome struct {
	records int // Full Sensor Records returned by an SDR retrieval
	elapsed time.Duration
	err     error
	hung    bool
	valid   int
	reached bool
}

func runOnce(c Case, seed uint64) (outcome, error) {
	withSession := c.Call != "sessionless" && c.Call != "newsession"
	e, err := newEnv(seed, c.T, withSession)
	if err != nil {
		return outcome{}, err
	}
	defer e.close()
	if c.Prelude != "" {
		e.srv.Arm(func(rx *simbmc.Rx) []udpnet.Reply { return nil })
		pctx, pcancel := context.WithTimeout(context.Background(), c.T+c.T/4)
		if c.Prelude == "expired-context" {
			pcancel()
			pctx, pcancel = context.WithDeadline(context.Background(), time.Now().Add(-time.Millisecond))
		}
		var perr error
		pdone := make(chan struct{})
		go func() {
			defer close(pdone)
			if c.Prelude == "failed-close" {
				perr = e.sess.Close(pctx)
			} else if withSession {
				_, perr = e.sess.GetDeviceID(pctx)
			} else {
				_, perr = e.t.GetSystemGUID(pctx)
			}
		}()
		select {
		case <-pdone:
		case <-time.After(c.T + c.T/4 + 5*time.Second):
			// the earlier call is itself a blocking call that outlived its context
			pcancel()
			return outcome{hung: true, reached: true, elapsed: c.T + c.T/4 + 5*time.Second}, nil
		}
		pcancel()
		if perr == nil {
			return outcome{}, fmt.Errorf("prelude call succeeded against a silent BMC")
		}
	}
	e.srv.Arm(policy(e.srv, c)) // Arm restarts the request count
	var ctx context.Context
	var cancel context.CancelFunc
	if c.D < 0 {
		ctx, cancel = context.WithDeadline(context.Background(), time.Now().Add(-time.Millisecond))
	} else {
		ctx, cancel = context.WithTimeout(context.Background(), c.D)
	}
	defer cancel()
	done := make(chan error, 1)
	start := time.Now()
	records := 0
	go func() {
		var err error
		switch c.Call {
		case "sessionless":
			_, err = e.t.GetSystemGUID(ctx)
		case "newsession":
			var s bmc.Session
			s, err = e.t.NewSession(ctx, &bmc.SessionOpts{Username: "admin", Password: []byte("pw"), MaxPrivilegeLevel: ipmi.PrivilegeLevelAdministrator})
			if err == nil && s == nil {
				err = fmt.Errorf("nil session with nil error")
			}
		case "insession":
			_, err = e.sess.GetDeviceID(ctx)
		case "close":
			err = e.sess.Close(ctx)
		case "sdr":
			var repo bmc.SDRRepository
			repo, err = bmc.RetrieveSDRRepository(ctx, e.sess)
			records = len(repo)
		case "dcmi":
			_, err = dcmi.GetSensorInfo(ctx, e.sess)
		}
		done <- err
	}()
	d := c.D
	if d < 0 {
		d = 0
	}
	var o outcome
	select {
	case o.err = <-done:
		o.elapsed = time.Since(start)
		o.records = records
	case <-time.After(d + 5*time.Second):
		o.hung = true
		o.elapsed = time.Since(start)
	}
	e.srv.Lock()
	o.valid = e.srv.ValidSent
	o.reached = e.srv.Received > c.K
	e.srv.Unlock()
	return o, nil
}

func judge(c Case, seed uint64) (msg string, nontrivial bool, inconclusive bool) {
	limit := c.D
	if limit < 0 {
		limit = 0
	}
	limit += allowance
	over := 0
	var last outcome
	for attempt := 0; attempt < 3; attempt++ {
		o, err := runOnce(c, seed+uint64(attempt)*1000)
		if err != nil {
			return "", false, true
		}
		last = o
		if o.hung {
			return fmt.Sprintf("%v: call had not returned %v after its deadline", c, 5*time.Second), o.reached, false
		}
		if c.Fault == "lose-one" {
			// a single lost reply: the call may fail or recover, but a retrieval that
			// reports success has got a valid response at every step, so it holds
			// all four records of the repository
			if o.err == nil && c.Call == "sdr" && o.records != 4 {
				return fmt.Sprintf("%v: retrieval reported success with %d of 4 records although the reply to request %d was lost", c, o.records, c.K+1), true, false
			}
			if o.elapsed <= limit {
				return "", o.reached, false
			}
			over++
			continue
		}
		if o.err == nil && c.Fault != "late" && c.D >= 0 && o.reached {
			// the fault persists from step k on, so no valid final response can have arrived
			return fmt.Sprintf("%v: call reported success although every reply from step %d on was faulted", c, c.K), o.reached, false
		}
		if o.err == nil && c.D >= 0 && o.valid == 0 && c.Fault != "none" {
			return fmt.Sprintf("%v: call reported success although the BMC sent no valid reply during it", c), true, false
		}
		if o.err == nil && c.D < 0 {
			return fmt.Sprintf("%v: call with an already expired context reported success", c), o.reached, false
		}
		if o.elapsed <= limit {
			return "", o.reached, false
		}
		over++
	}
	if over == 3 {
		return fmt.Sprintf("%v: returned after %v in 3 of 3 runs; deadline %v + allowance %v", c, last.elapsed, c.D, allowance), last.reached, false
	}
	return "", last.reached, false
}

func cases() []Case {
	steps := map[string]int{"sessionless": 1, "newsession": 4, "insession": 1, "close": 1, "sdr": 12, "dcmi": 5}
	var out []Case
	for _, call := range []string{"sessionless", "newsession", "insession", "close", "sdr", "dcmi"} {
		faults := []string{"blackhole", "late", "garbage", "busy"}
		if call == "newsession" {
			faults = append(faults, "truncated", "truncated-tail1", "truncated-half", "truncated-to8")
		}
		for _, f := range faults {
			for k := 1; k <= steps[call]; k++ {
				for _, T := range []time.Duration{20 * time.Millisecond, 50 * time.Millisecond} {
					for _, dm := range []float64{-1, 0.5, 1, 2.5, 6} {
						c := Case{Call: call, Fault: f, K: k - 1, T: T}
						if dm < 0 {
							c.D = -1
						} else {
							c.D = time.Duration(float64(T) * dm)
						}
						out = append(out, c)
					}
				}
			}
		}
	}
	// a per-attempt timeout far longer than the deadline: the deadline, not the
	// attempt timeout, must bound the call
	for _, call := range []string{"sessionless", "newsession", "insession", "close", "sdr", "dcmi"} {
		for _, f := range []string{"blackhole", "garbage", "busy"} {
			for _, d := range []time.Duration{-1, 100 * time.Millisecond} {
				out = append(out, Case{Call: call, Fault: f, K: 0, T: 1500 * time.Millisecond, D: d})
			}
		}
	}
	// the same at every later step of session establishment (the steps before it are
	// answered): whatever a failing step does on its way out - tidying up a half-open
	// session, say - happens inside the caller's deadline, not one attempt timeout later
	for _, f := range []string{"blackhole", "garbage", "late", "truncated"} {
		for k := 1; k < steps["newsession"]; k++ {
			out = append(out, Case{Call: "newsession", Fault: f, K: k, T: 1500 * time.Millisecond, D: 400 * time.Millisecond})
		}
	}
	// deadlines that fall while a RETRY is waiting for its reply (the back-off before
	// the first retry is 0.25-0.75 s): after one silent attempt of 1.5 s the second
	// attempt is in flight at 2.6 s; after an immediate garbage reply the second
	// attempt of 1.2 s is in flight at 0.85 s
	for _, call := range []string{"sessionless", "newsession", "sdr", "dcmi"} {
		for _, f := range []string{"blackhole", "late"} {
			if call != "sessionless" && call != "newsession" {
				continue // in a session a silent attempt ends the command
			}
			out = append(out, Case{Call: call, Fault: f, K: 0, T: 1500 * time.Millisecond, D: 2600 * time.Millisecond})
		}
	}
	for _, call := range []string{"sessionless", "newsession", "insession", "close", "sdr", "dcmi"} {
		out = append(out, Case{Call: call, Fault: "garbage-then-blackhole", K: 0, T: 1200 * time.Millisecond, D: 850 * time.Millisecond})
	}
	// a call that follows a failed call on the same connection / session within
	// one attempt timeout, with a deadline shorter than that timeout
	for _, call := range []string{"sessionless", "newsession", "insession", "close", "sdr", "dcmi"} {
		for _, pre := range []string{"timed-out", "expired-context"} {
			out = append(out, Case{Call: call, Fault: "blackhole", K: 0, T: 400 * time.Millisecond, D: 100 * time.Millisecond, Prelude: pre},
				Case{Call: call, Fault: "garbage", K: 0, T: 300 * time.Millisecond, D: 150 * time.Millisecond, Prelude: pre})
		}
	}
	for _, call := range []string{"sessionless", "newsession", "insession", "close", "sdr", "dcmi"} {
		out = append(out, Case{Call: call, Fault: "garbage-ff-run", K: 0, T: 100 * time.Millisecond, D: 600 * time.Millisecond})
	}
	// junk that keeps arriving late in each attempt's window: the deadline equals
	// one attempt timeout, or falls inside the second attempt
	for _, call := range []string{"sessionless", "newsession", "insession", "close", "sdr", "dcmi"} {
		out = append(out, Case{Call: call, Fault: "late-junk-stream", K: 0, T: 500 * time.Millisecond, D: 500 * time.Millisecond})
	}
	out = append(out, Case{Call: "sessionless", Fault: "late-junk-stream", K: 0, T: 400 * time.Millisecond, D: 1300 * time.Millisecond},
		Case{Call: "newsession", Fault: "late-junk-stream", K: 2, T: 400 * time.Millisecond, D: 1300 * time.Millisecond})
	// one lost reply at each step of an SDR retrieval, with time to recover
	for k := 0; k < 12; k++ {
		out = append(out, Case{Call: "sdr", Fault: "lose-one", K: k, T: 60 * time.Millisecond, D: 4 * time.Second})
	}
	// closing again after a close that failed: the second close is a blocking call
	// like any other and cannot succeed against a silent BMC
	for _, f := range []string{"blackhole", "garbage"} {
		out = append(out, Case{Call: "close", Fault: f, K: 0, T: 150 * time.Millisecond, D: 400 * time.Millisecond, Prelude: "failed-close"})
	}
	return out
}

func TestControl(t *testing.T) {
	// without faults every call succeeds over UDP well within a generous deadline
	for _, call := range []string{"sessionless", "newsession", "insession", "close", "sdr", "dcmi"} {
		c := Case{Call: call, Fault: "none", K: 1 << 30, T: 200 * time.Millisecond, D: 5 * time.Second}
		o, err := runOnce(c, uint64(ev.Seed)+11)
		if err != nil {
			t.Fatalf("harness: %v", err)
		}
		ev.Eval()
		if o.err != nil || o.hung {
			ev.Violation("TestControl", c, fmt.Sprintf("fault-free call failed: %v", o.err))
			t.Fatalf("%v: fault-free call failed: %v (hung=%v)", c, o.err, o.hung)
		}
		ev.Label("control:" + call)
	}
}

func TestDeadlines(t *testing.T) {
	all := cases()
	var sel []Case
	if ev.Thorough() {
		sel = all
	} else {
		// a seed-dependent stride through the enumeration, keeping every (call, fault) pair
		stride := 5
		for i, c := range all {
			if (i+int(ev.Seed))%stride == 0 || c.T > time.Second || (strings.HasPrefix(c.Fault, "truncated-") && c.D >= 2*c.T) || c.Prelude != "" || c.Fault == "late-junk-stream" || c.Fault == "lose-one" || c.Fault == "garbage-ff-run" {
				sel = append(sel, c)
			}
		}
	}
	var mu sync.Mutex
	var wg sync.WaitGroup
	sem := make(chan struct{}, 12)
	var firstMsg string
	var firstCase Case
	inconclusive := 0
	for i, c := range sel {
		i, c := i, c
		wg.Add(1)
		sem <- struct{}{}
		go func() {
			defer wg.Done()
			defer func() { <-sem }()
			msg, nt, inc := judge(c, uint64(ev.Seed)*7919+uint64(i))
			mu.Lock()
			defer mu.Unlock()
			ev.Eval()
			if inc {
				inconclusive++
				return
			}
			if msg != "" && firstMsg == "" {
				firstMsg, firstCase = msg, c
			}
			if nt {
				ev.NonTrivial(c.String())
				ev.Label("fault:" + c.Call + ":" + c.Fault)
				if c.Prelude != "" {
					ev.Label("after-failed-call:" + c.Call + ":" + c.Prelude)
				}
			}
			if i%23 == 0 {
				ev.Sample(map[string]any{"call": c.Call, "fault": c.Fault, "from request": c.K + 1, "attempt timeout": c.T.String(), "deadline": c.D.String()})
			}
		}()
	}
	wg.Wait()
	if firstMsg != "" {
		ev.Violation("TestDeadlines", map[string]any{"call": firstCase.Call, "fault": firstCase.Fault, "k": firstCase.K, "T": firstCase.T.String(), "D": firstCase.D.String()}, firstMsg)
		t.Fatalf("%s", firstMsg)
	}
	if inconclusive > len(sel)/10 {
		fmt.Printf("INCONCLUSIVE property=C13 %d of %d cases could not be set up\n", inconclusive, len(sel))
		t.Fatalf("too many cases could not be set up: %d", inconclusive)
	}
	ev.Label("deadlines-complete")
}

func TestCoverage(t *testing.T) {
	need := []string{"deadlines-complete", "after-failed-call:close:failed-close", "fault:sdr:lose-one"}
	for _, call := range []string{"sessionless", "newsession", "insession", "close", "sdr", "dcmi"} {
		need = append(need, "after-failed-call:"+call+":timed-out", "after-failed-call:"+call+":expired-context", "control:"+call, "fault:"+call+":garbage-ff-run", "fault:"+call+":late-junk-stream", "fault:"+call+":blackhole", "fault:"+call+":garbage", "fault:"+call+":garbage-then-blackhole")
	}
	ev.RequireLabels(t, 1, need...)
}
