// C17: reusing a layer, command or connection never leaks earlier data into a result.
package c17

import (
	"context"
	"fmt"
	"os"
	"sort"
	"strings"
	"testing"
	"time"

	"github.com/gebn/bmc"
	"github.com/gebn/bmc/pkg/ipmi"
	"github.com/google/gopacket"
	"pgregory.net/rapid"

	"verif/harness/evid"
	"verif/harness/hx"
	"verif/harness/memnet"
	"verif/harness/ref"
	"verif/harness/simbmc"
)

var ev *evid.E

func TestMain(m *testing.M) {
	ev = evid.New("C17", "exploration",
		"differential: for every decodable layer, ordered pairs (A, B) where B is a valid reference encoding and A a valid or (in a quarter of the cases) malformed/rejected one; pairs of the same layer with generated (and therefore differing) optional tails, lengths "+
			"and branches are decoded A-then-B into one value and B alone into a fresh value; all exported fields (byte slices by content, nil == empty) must agree. The same for "+
			"session wrappers, messages and v1.5 wrappers; for command values reused through SendCommand; and for every ordered pair of catalogue commands issued back-to-back on one "+
			"connection / session versus on a fresh one. Non-trivial = A and B differ in length or branch; distinct by (layer, A, B)")
	ev.Assume("state left behind by a decode that returned an error is unspecified and not compared")
	evid.Main(m, ev)
}

func exact(b []byte) []byte {
	o := make([]byte, len(b))
	copy(o, b)
	return o[:len(o):len(o)]
}

func baseName(n string) string {
	if i := strings.Index(n, "/"); i > 0 {
		return n[:i]
	}
	return n
}

// TestLayerReuse: response layers from the shared case generator.
func TestLayerReuse(t *testing.T) {
	ev.Check(t, "TestLayerReuse", ev.PickN(20000, 1000000), func(t *rapid.T) {
		a := hx.GenResponseCase(t)
		// draw B until it is the same layer type (bounded)
		var b hx.DCase
		found := false
		for i := 0; i < 60 && !found; i++ {
			b = hx.GenResponseCase(t)
			found = baseName(b.Name) == baseName(a.Name)
			if strings.HasPrefix(a.Name, "DCMICaps") {
				found = strings.HasPrefix(b.Name, a.Name[:len("DCMICaps/param1")])
			}
		}
		if !found {
			t.Skip("no second encoding of the same layer drawn")
		}
		reused := a.Fresh()
		aWire := a.Wire
		corruptA := rapid.IntRange(0, 3).Draw(t, "corruptA") == 0
		if corruptA {
			// the earlier input may also be a malformed one (cut or altered): its
			// decode error is ignored, only what it leaves behind matters
			aWire = append([]byte(nil), a.Wire...)
			if len(aWire) > 0 && rapid.Bool().Draw(t, "cutA") {
				aWire = aWire[:rapid.IntRange(0, len(aWire)-1).Draw(t, "cutAt")]
			} else if len(aWire) > 0 {
				aWire[rapid.IntRange(0, len(aWire)-1).Draw(t, "posA")] ^= byte(rapid.IntRange(1, 255).Draw(t, "maskA"))
			}
		}
		if err := reused.DecodeFromBytes(exact(aWire), gopacket.NilDecodeFeedback); err != nil && !corruptA {
			t.Fatalf("%s: valid encoding A rejected: %v", a.Name, err)
		}
		if err := reused.DecodeFromBytes(exact(b.Wire), gopacket.NilDecodeFeedback); err != nil {
			t.Fatalf("%s: valid encoding B rejected after A: %v", b.Name, err)
		}
		fresh := a.Fresh()
		if err := fresh.DecodeFromBytes(exact(b.Wire), gopacket.NilDecodeFeedback); err != nil {
			t.Fatalf("%s: valid encoding B rejected: %v", b.Name, err)
		}
		ev.Eval()
		if dr, df := hx.Dump(reused), hx.Dump(fresh); dr != df {
			t.Fatalf("%s then %s: decoding B into a used value differs from decoding it into a fresh one\n A = % x\n B = % x\n reused: %s\n fresh:  %s", a.Name, b.Name, a.Wire, b.Wire, dr, df)
		}
		ev.Label("layer:" + baseName(a.Name))
		if a.Name != b.Name || len(a.Wire) != len(b.Wire) {
			ev.NonTrivial(fmt.Sprintf("%s|%x|%x", a.Name, a.Wire, b.Wire))
			ev.Label("layer-branch-differs:" + baseName(a.Name))
		}
		ev.Sample(map[string]any{"layer": a.Name + " then " + b.Name, "A": fmt.Sprintf("%x", a.Wire), "B": fmt.Sprintf("%x", b.Wire)})
	})
}

// TestWrapperReuse: v1.5 / v2.0 wrappers and messages.
func TestWrapperReuse(t *testing.T) {
	key := []byte("0123456789abcdefghij")
	genV2 := func(t *rapid.T) []byte {
		integ := rapid.SampledFrom([]uint8{0, ref.IntegSHA1_96}).Draw(t, "integ")
		p := &ref.Packet{PayloadType: rapid.SampledFrom([]uint8{0, 2, 0x11, 0x13}).Draw(t, "pt"), OEMIANA: rapid.Uint32().Draw(t, "iana"), OEMPayloadID: rapid.Uint16().Draw(t, "pid"),
			SessionID: rapid.Uint32().Draw(t, "sid"), Seq: rapid.Uint32().Draw(t, "seq"), Authenticated: integ != 0, Encrypted: rapid.Bool().Draw(t, "enc"),
			Payload: rapid.SliceOfN(rapid.Byte(), 0, 40).Draw(t, "payload")}
		return ref.BuildPacket(p, integ, key)[4:]
	}
	genV1 := func(t *rapid.T) []byte {
		v := ref.V1{AuthType: rapid.SampledFrom([]byte{0, 2, 4}).Draw(t, "authType"), Seq: rapid.Uint32().Draw(t, "seq"), ID: rapid.Uint32().Draw(t, "id"), Payload: rapid.SliceOfN(rapid.Byte(), 0, 30).Draw(t, "payload")}
		copy(v.Code[:], rapid.SliceOfN(rapid.Byte(), 16, 16).Draw(t, "code"))
		return v.Bytes()
	}
	genMsg := func(t *rapid.T) []byte {
		m := ref.Msg{RsAddr: 0x81, NetFn: rapid.SampledFrom([]byte{6, 7, 0x2c, 0x2d, 0x2e, 0x2f, 0x0b}).Draw(t, "netfn"), RqAddr: 0x20, RqSeq: byte(rapid.IntRange(0, 63).Draw(t, "seq")),
			Cmd: rapid.Byte().Draw(t, "cmd"), CC: rapid.Byte().Draw(t, "cc"), Data: rapid.SliceOfN(rapid.Byte(), 3, 20).Draw(t, "data")}
		return m.Bytes()
	}
	ev.Check(t, "TestWrapperReuse", ev.PickN(8000, 400000), func(t *rapid.T) {
		kind := rapid.IntRange(0, 2).Draw(t, "kind")
		var a, b []byte
		var mk func() gopacket.DecodingLayer
		name := ""
		switch kind {
		case 0:
			a, b, name = genV2(t), genV2(t), "V2Session"
			mk = func() gopacket.DecodingLayer { return &ipmi.V2Session{IntegrityAlgorithm: hx.TruncHMACSHA1(key)} }
		case 1:
			a, b, name = genV1(t), genV1(t), "V1Session"
			mk = func() gopacket.DecodingLayer { return &ipmi.V1Session{} }
		default:
			a, b, name = genMsg(t), genMsg(t), "Message"
			mk = func() gopacket.DecodingLayer { return &ipmi.Message{} }
		}
		reused, fresh := mk(), mk()
		corruptA := rapid.IntRange(0, 2).Draw(t, "corruptA") == 0
		if corruptA && len(a) > 0 {
			// an earlier packet that is rejected (bad AuthCode, checksum, cut) must not
			// influence how the next one decodes
			a = append([]byte(nil), a...)
			if rapid.Bool().Draw(t, "cutA") {
				a = a[:rapid.IntRange(0, len(a)-1).Draw(t, "cutAt")]
			} else {
				a[len(a)-1-rapid.IntRange(0, len(a)-1).Draw(t, "fromEnd")] ^= byte(rapid.IntRange(1, 255).Draw(t, "maskA"))
			}
			ev.Label("wrapper-after-rejected:" + name)
		}
		if err := reused.DecodeFromBytes(exact(a), gopacket.NilDecodeFeedback); err != nil && !corruptA {
			t.Fatalf("%s: A rejected: %v (% x)", name, err, a)
		}
		if err := reused.DecodeFromBytes(exact(b), gopacket.NilDecodeFeedback); err != nil {
			t.Fatalf("%s: B rejected after A: %v (% x)", name, err, b)
		}
		if err := fresh.DecodeFromBytes(exact(b), gopacket.NilDecodeFeedback); err != nil {
			t.Fatalf("%s: B rejected: %v", name, err)
		}
		ev.Eval()
		if dr, df := hx.Dump(reused), hx.Dump(fresh); dr != df {
			t.Fatalf("%s: decoding B after A differs from a fresh decode\n A = % x\n B = % x\n reused: %s\n fresh:  %s", name, a, b, dr, df)
		}
		ev.Label("wrapper:" + name)
		if len(a) != len(b) || a[0] != b[0] || a[1] != b[1] {
			ev.NonTrivial(fmt.Sprintf("%s|%x|%x", name, a, b))
		}
	})
}

type conn interface {
	SendCommand(context.Context, ipmi.Command) (ipmi.CompletionCode, error)
}

// TestCommandPairs: every ordered pair of catalogue commands back-to-back on
// one connection / session; the second result must equal its result on a fresh
// connection against the same BMC answers. Also reuses one command value twice.
func TestCommandPairs(t *testing.T) {
	cat := hx.Catalogue()
	suites := hx.Suites9()
	n := 0
	for _, inSession := range []bool{false, true} {
		for _, ea := range cat {
			for _, eb := range cat {
				n++
				// worlds: "used" runs A then B, "fresh" runs only B, with identical BMC data
				run := func(withA bool) (string, error) {
					c := hx.Creds{User: "admin", Password: []byte("pw"), Priv: 4, Suite: suites[(n+int(ev.Seed))%9], Seed: uint64(ev.Seed)*31 + uint64(n)}
					w := hx.NewWorldFor(c, true)
					var cn conn = w.T
					if inSession {
						s, err := w.T.NewV2Session(context.Background(), c.Opts())
						if err != nil {
							return "", err
						}
						cn = s
					}
					if withA {
						ca := prepare(ea, w.BMC, n*17+int(ev.Seed))
						// what A's exchange looked like varies: the BMC may number its RMCP
						// and session-less headers, and a stray packet (ASF pong / RMCP ACK,
						// delayed session-setup packet, reply to another command) may
						// precede A's reply or be all that A receives; A's reply may be
						// lost (a transport error), refused or undecodable
						w.BMC.RMCPSeq = []byte{0, 0x2a, 0xfe, 0}[n%4]
						w.BMC.NumberPlain = n%5 == 1
						script := [][]hx.Outcome{{hx.Final}, {hx.StrayASF, hx.Final}, {hx.StraySetup, hx.Final}, {hx.StrayOK, hx.Final}, {hx.StrayASF}, {hx.StraySetup}, {hx.Garbage, hx.Final}, {hx.Lost}, {hx.Busy, hx.Lost}, {hx.FinalCC}, {hx.FinalTruncated}}[n%11]
						sc := &hx.Scripter{Script: script}
						sc.Install(w.BMC)
						ctx, cancel := w.Ctx(len(script))
						cn.SendCommand(ctx, ca.Cmd)
						cancel()
						w.BMC.Intercept, w.BMC.RMCPSeq, w.BMC.NumberPlain = nil, 0, false
						w.Net.Drain()
					}
					// the BMC-side data (and state such as the SDR reservation) for B
					// is installed after A, so both runs face the same BMC answers
					cb := prepare(eb, w.BMC, n*29+int(ev.Seed)+1)
					ctx, cancel := w.Ctx(3)
					code, err := cn.SendCommand(ctx, cb.Cmd)
					cancel()
					if err != nil {
						return fmt.Sprintf("code=%v err=%v", code, err != nil), nil
					}
					if code == 0 {
						if cerr := cb.Check(); cerr != nil {
							return "", fmt.Errorf("second command %s returned a value that is not the BMC's: %v", cb.Name, cerr)
						}
					}
					return fmt.Sprintf("code=%v %s", code, cb.Summary()), nil
				}
				used, err := run(true)
				if err == nil {
					var fresh string
					fresh, err = run(false)
					if err == nil && used != fresh {
						err = fmt.Errorf("result of %s after %s differs from its result on a fresh connection:\n used:  %s\n fresh: %s", eb.Name, ea.Name, used, fresh)
					}
				}
				ev.Eval()
				if err != nil {
					ev.Violation("TestCommandPairs", map[string]any{"first": ea.Name, "second": eb.Name, "inSession": inSession, "n": n}, err.Error())
					t.Fatalf("inSession=%v %s then %s: %v", inSession, ea.Name, eb.Name, err)
				}
				ev.NonTrivial(fmt.Sprintf("pair|%v|%s|%s", inSession, ea.Name, eb.Name))
				if n%41 == 0 {
					ev.Sample(map[string]any{"pair": ea.Name + " then " + eb.Name, "inSession": inSession, "result": used})
				}
			}
		}
	}
	ev.Label("pairs-complete")
}

// TestMethodPairs: every ordered pair of the session's convenience methods
// (which build their request themselves) back-to-back on one session, the first
// one answered normally, refused by the BMC, refused locally or lost. The second
// call must return what it returns as the first call on a fresh session against
// a BMC in the same state, and the BMC must be asked the same thing.
func TestMethodPairs(t *testing.T) {
	type method struct {
		name string
		call func(ctx context.Context, s *bmc.V2Session) (string, error)
	}
	var methods []method
	for lvl := 0; lvl <= 5; lvl++ {
		lvl := lvl
		methods = append(methods, method{fmt.Sprintf("SetSessionPrivilegeLevel(%d)", lvl), func(ctx context.Context, s *bmc.V2Session) (string, error) {
			l, err := s.SetSessionPrivilegeLevel(ctx, ipmi.PrivilegeLevel(lvl))
			return fmt.Sprint(l), err
		}})
	}
	methods = append(methods,
		method{"GetSessionPrivilegeLevel()", func(ctx context.Context, s *bmc.V2Session) (string, error) {
			l, err := s.GetSessionPrivilegeLevel(ctx)
			return fmt.Sprint(l), err
		}},
		method{"ChassisControl(0)", func(ctx context.Context, s *bmc.V2Session) (string, error) { return "", s.ChassisControl(ctx, 0) }},
		method{"ChassisControl(3)", func(ctx context.Context, s *bmc.V2Session) (string, error) { return "", s.ChassisControl(ctx, 3) }},
		method{"GetSensorReading(4)", func(ctx context.Context, s *bmc.V2Session) (string, error) {
			r, err := s.GetSensorReading(ctx, 4)
			return dumpOrNil(r, err), err
		}},
		method{"GetSensorReading(9)", func(ctx context.Context, s *bmc.V2Session) (string, error) {
			r, err := s.GetSensorReading(ctx, 9)
			return dumpOrNil(r, err), err
		}},
		method{"GetDeviceID()", func(ctx context.Context, s *bmc.V2Session) (string, error) {
			r, err := s.GetDeviceID(ctx)
			return dumpOrNil(r, err), err
		}},
		method{"GetChassisStatus()", func(ctx context.Context, s *bmc.V2Session) (string, error) {
			r, err := s.GetChassisStatus(ctx)
			return dumpOrNil(r, err), err
		}},
		method{"GetSystemGUID()", func(ctx context.Context, s *bmc.V2Session) (string, error) {
			g, err := s.GetSystemGUID(ctx)
			return fmt.Sprintf("%x", g), err
		}},
		method{"GetSDRRepositoryInfo()", func(ctx context.Context, s *bmc.V2Session) (string, error) {
			r, err := s.GetSDRRepositoryInfo(ctx)
			return dumpOrNil(r, err), err
		}},
		method{"ReserveSDRRepository()", func(ctx context.Context, s *bmc.V2Session) (string, error) {
			r, err := s.ReserveSDRRepository(ctx)
			return dumpOrNil(r, err), err
		}},
		method{"GetSessionInfo(current)", func(ctx context.Context, s *bmc.V2Session) (string, error) {
			r, err := s.GetSessionInfo(ctx, &ipmi.GetSessionInfoReq{})
			return dumpOrNil(r, err), err
		}},
		method{"GetChannelAuthenticationCapabilities(present, admin)", func(ctx context.Context, s *bmc.V2Session) (string, error) {
			r, err := s.GetChannelAuthenticationCapabilities(ctx, &ipmi.GetChannelAuthenticationCapabilitiesReq{ExtendedData: true, Channel: ipmi.ChannelPresentInterface, MaxPrivilegeLevel: ipmi.PrivilegeLevelAdministrator})
			return dumpOrNil(r, err), err
		}},
	)
	suites := hx.Suites12()
	firstOutcomes := [][]hx.Outcome{{hx.Final}, {hx.FinalCC}, {hx.Lost}, {hx.Busy, hx.Final}}
	n := 0
	for ai, ma := range methods {
		for bi, mb := range methods {
			for oi, script := range firstOutcomes {
				n++
				c := hx.Creds{User: "admin", Password: []byte("pw"), Priv: 4, Suite: suites[(n+int(ev.Seed))%len(suites)], Seed: uint64(ev.Seed)*131 + uint64(n)}
				limit := byte(0)
				if (ai+bi+oi)%2 == 0 {
					limit = 3 // the user may go up to OPERATOR: higher requests are refused
				}
				var state simbmc.Data
				run := func(withA bool) (string, error) {
					w := hx.NewWorldFor(c, true)
					w.BMC.Data.Sensors[4] = ref.SensorReading{Reading: 0x5a, Scanning: true}
					w.BMC.Data.Sensors[9] = ref.SensorReading{Reading: 0x11, Scanning: true, Unavailable: true}
					w.BMC.Data.PrivLimit = limit
					s, err := w.T.NewV2Session(context.Background(), c.Opts())
					if err != nil {
						return "", fmt.Errorf("harness: %v", err)
					}
					if withA {
						sc := &hx.Scripter{Script: script, FinalCode: 0xD5}
						sc.Install(w.BMC)
						ctx, cancel := w.Ctx(len(script))
						ma.call(ctx, s)
						cancel()
						w.BMC.Intercept = nil
						w.Net.Drain()
						state = w.BMC.Data
					} else {
						w.BMC.Data = state
					}
					before := len(w.BMC.Log)
					ctx, cancel := w.Ctx(2)
					res, err := mb.call(ctx, s)
					cancel()
					asked := "nothing"
					if len(w.BMC.Log) > before {
						if m := w.BMC.Log[before].Msg; m != nil {
							asked = fmt.Sprintf("NetFn %#x cmd %#x data %x", m.NetFn, m.Cmd, m.Data)
						}
					}
					if err != nil {
						res = ""
					}
					return fmt.Sprintf("err=%v result=%s; BMC was asked: %s (%d datagrams)", err != nil, res, asked, len(w.BMC.Log)-before), nil
				}
				used, err := run(true)
				if err == nil {
					var fresh string
					fresh, err = run(false)
					if err == nil && used != fresh {
						err = fmt.Errorf("%s after %s (answered %s) differs from the same call on a fresh session:\n after: %s\n fresh: %s", mb.name, ma.name, hx.ScriptString(script), used, fresh)
					}
				}
				ev.Eval()
				if err != nil {
					ev.Violation("TestMethodPairs", map[string]any{"first": ma.name, "firstAnswered": hx.ScriptString(script), "second": mb.name, "privilegeLimit": limit, "suite": c.Suite.String()}, err.Error())
					t.Fatalf("%v", err)
				}
				ev.NonTrivial(fmt.Sprintf("mpair|%s|%s|%d", ma.name, mb.name, oi))
				if n%97 == 0 {
					ev.Sample(map[string]any{"pair": ma.name + " then " + mb.name, "firstAnswered": hx.ScriptString(script), "second": used})
				}
			}
		}
	}
	ev.Label("method-pairs-complete")
}

// TestSDRRetrievalAfterAbandonedWalk: the repository changes while it is being
// walked (a record is deleted, another added, the rest renumbered; the
// timestamps move), so the library abandons the walk and starts again. What it
// finally returns must be what a fresh session returns for the final
// repository: nothing decoded during the abandoned walk survives.
func TestSDRRetrievalAfterAbandonedWalk(t *testing.T) {
	ev.Check(t, "TestSDRRetrievalAfterAbandonedWalk", ev.PickN(10, 400), func(t *rapid.T) {
		c := hx.Creds{User: "admin", Password: []byte("pw"), Priv: 4, Suite: rapid.SampledFrom(hx.Suites9()).Draw(t, "suite"), Seed: rapid.Uint64().Draw(t, "seed")}
		n := rapid.IntRange(2, 6).Draw(t, "records")
		mk := func(id uint16, name string) simbmc.Record {
			f := ref.FSR{Number: byte(id), M: int(id%50) + 1, ID: ref.IDString{Enc: ref.Enc8Bit, Codes: []byte(name)}}
			return simbmc.Record{ID: id, Bytes: f.Record(id)}
		}
		var before, after []simbmc.Record
		for i := 0; i < n; i++ {
			before = append(before, mk(uint16(0x10*(i+1)), fmt.Sprintf("sensor %d", i)))
		}
		// the final repository: one record gone, the later ones renumbered, one new
		gone := rapid.IntRange(0, n-1).Draw(t, "deleted")
		renumber := rapid.Bool().Draw(t, "renumber")
		for i := 0; i < n; i++ {
			if i == gone {
				continue
			}
			id := uint16(0x10 * (i + 1))
			if renumber && i > gone {
				id = uint16(0x10*i) + 1
			}
			after = append(after, mk(id, fmt.Sprintf("sensor %d", i)))
		}
		after = append(after, mk(0x7000, "new sensor"))
		at := rapid.IntRange(2, 2*n).Draw(t, "modifiedBeforeGetSDR")
		run := func(modify bool) (string, error) {
			w := hx.NewWorldFor(c, true)
			sess, err := w.T.NewV2Session(context.Background(), c.Opts())
			if err != nil {
				return "", fmt.Errorf("harness: %v", err)
			}
			rp := &w.BMC.Data.Repo
			rp.AddTS, rp.EraseTS = 1000, 900
			if modify {
				rp.Records = append([]simbmc.Record(nil), before...)
				rp.BeforeGetSDR = func(r *simbmc.Repo, k int) {
					if k == at {
						r.Records = append([]simbmc.Record(nil), after...)
						r.AddTS, r.EraseTS = r.AddTS+5, r.EraseTS+5
						r.CancelReservation()
					}
				}
			} else {
				rp.Records = append([]simbmc.Record(nil), after...)
				rp.AddTS, rp.EraseTS = 1005, 905
			}
			ctx, cancel := context.WithTimeout(context.Background(), 20*time.Second)
			defer cancel()
			repo, err := bmc.RetrieveSDRRepository(ctx, sess)
			if err != nil && ctx.Err() != nil {
				// the retrieval waits in real time between walks; running out of
				// the time budget on a busy machine is not a verdict
				return "", errBudget
			}
			if err != nil {
				return "", fmt.Errorf("retrieval failed: %v", err)
			}
			var ids []string
			for id, f := range repo {
				ids = append(ids, fmt.Sprintf("%#04x:%q:M=%d", uint16(id), f.Identity, f.M))
			}
			sort.Strings(ids)
			return strings.Join(ids, " "), nil
		}
		used, err := run(true)
		if err == errBudget {
			t.Skip("time budget exhausted")
		}
		if err != nil {
			t.Fatalf("%v", err)
		}
		fresh, err := run(false)
		if err == errBudget {
			t.Skip("time budget exhausted")
		}
		if err != nil {
			t.Fatalf("%v", err)
		}
		ev.Eval()
		if used != fresh {
			t.Fatalf("repository returned after an abandoned walk differs from a fresh retrieval of the same final repository\n after abandoned walk: %s\n fresh:                %s", used, fresh)
		}
		ev.Label("sdr-retrieval-after-abandoned-walk")
		ev.NonTrivial(fmt.Sprintf("sdr|%d|%d|%v|%d", n, gone, renumber, at))
	})
}

// TestLongSessions: the same command (and the same BMC answer) many times over on
// one session and on the session-less connection: the result of the n-th call is
// the result of the first, for n up to past every width a counter on the way
// might have (6-bit message sequence numbers, 8-bit fields).
func TestLongSessions(t *testing.T) {
	for i, suite := range []ref.Suite{hx.Suites12()[int(ev.Seed)%12], hx.Suites12()[(int(ev.Seed)+5)%12]} {
		c := hx.Creds{User: "admin", Password: []byte("pw"), Priv: 4, Suite: suite, Seed: uint64(ev.Seed)*29 + uint64(i)}
		w := hx.NewWorldFor(c, true)
		sess, err := w.T.NewV2Session(context.Background(), c.Opts())
		if err != nil {
			t.Fatalf("harness: %v", err)
		}
		var firstIn, firstOut string
		for n := 1; n <= 600; n++ {
			ctx, cancel := w.Ctx(2)
			st, err := sess.GetChassisStatus(ctx)
			cancel()
			in := fmt.Sprintf("err=%v %s", err != nil, dumpOrNil(st, err))
			ctx, cancel = w.Ctx(2)
			g, err := w.T.GetSystemGUID(ctx)
			cancel()
			out := fmt.Sprintf("err=%v %x", err != nil, g)
			ev.Eval()
			if n == 1 {
				firstIn, firstOut = in, out
				if strings.HasPrefix(in, "err=true") || strings.HasPrefix(out, "err=true") {
					t.Fatalf("harness: first calls failed: %s / %s", in, out)
				}
			}
			if in != firstIn || out != firstOut {
				msg := fmt.Sprintf("call %d on the same session / connection returns something else than call 1 although the BMC answers the same:\n in-session: %s (first: %s)\n session-less: %s (first: %s)", n, in, firstIn, out, firstOut)
				ev.Violation("TestLongSessions", map[string]any{"suite": suite.String(), "call": n}, msg)
				t.Fatalf("%s", msg)
			}
		}
		ev.NonTrivial(fmt.Sprintf("long|%v", suite))
	}
	ev.Label("long-sessions")
}

var errBudget = fmt.Errorf("time budget exhausted")

func dumpOrNil(l interface{}, err error) string {
	if err != nil {
		return ""
	}
	return hx.Dump(l)
}

func prepare(e hx.Entry, b *simbmc.BMC, draw int) *hx.Call {
	var call *hx.Call
	g := rapid.Custom(func(t *rapid.T) int { call = e.Prepare(t, b); return 0 })
	g.Example(draw)
	return call
}

// TestCommandValueReuse: one command value used for two calls whose responses
// differ in optional tails; the second result must match a fresh value's.
func TestCommandValueReuse(t *testing.T) {
	ev.Check(t, "TestCommandValueReuse", ev.PickN(3000, 150000), func(t *rapid.T) {
		w := hx.NewWorld(rapid.Uint64().Draw(t, "seed"), true)
		kind := rapid.IntRange(0, 3).Draw(t, "kind")
		var reused, fresh ipmi.Command
		var setA, setB func()
		switch kind {
		case 0:
			a, b := hx.GenDeviceID().Draw(t, "a"), hx.GenDeviceID().Draw(t, "b")
			reused, fresh = &ipmi.GetDeviceIDCmd{}, &ipmi.GetDeviceIDCmd{}
			setA, setB = func() { w.BMC.Data.DeviceID = a }, func() { w.BMC.Data.DeviceID = b }
		case 1:
			a, b := hx.GenChassisStatus().Draw(t, "a"), hx.GenChassisStatus().Draw(t, "b")
			reused, fresh = &ipmi.GetChassisStatusCmd{}, &ipmi.GetChassisStatusCmd{}
			setA, setB = func() { w.BMC.Data.Chassis = a }, func() { w.BMC.Data.Chassis = b }
		case 2:
			a, b := hx.GenSessionInfo().Draw(t, "a"), hx.GenSessionInfo().Draw(t, "b")
			reused, fresh = &ipmi.GetSessionInfoCmd{}, &ipmi.GetSessionInfoCmd{}
			setA, setB = func() { w.BMC.Data.SessionInfo = a }, func() { w.BMC.Data.SessionInfo = b }
		default:
			a, b := hx.GenSensorReading().Draw(t, "a"), hx.GenSensorReading().Draw(t, "b")
			reused, fresh = &ipmi.GetSensorReadingCmd{Req: ipmi.GetSensorReadingReq{Number: 4}}, &ipmi.GetSensorReadingCmd{Req: ipmi.GetSensorReadingReq{Number: 4}}
			setA, setB = func() { w.BMC.Data.Sensors[4] = a }, func() { w.BMC.Data.Sensors[4] = b }
		}
		ctx := context.Background()
		// outside or inside a session; the later reply may carry the normal code
		// and no body at all (some BMCs answer so)
		var cn conn = w.T
		if rapid.Bool().Draw(t, "inSession") {
			c := hx.Creds{User: "admin", Password: []byte("pw"), Priv: 4, Suite: rapid.SampledFrom(hx.Suites12()).Draw(t, "suite")}
			c.Install(w.BMC)
			sess, err := w.T.NewV2Session(ctx, c.Opts())
			if err != nil {
				t.Fatalf("session: %v", err)
			}
			cn = sess
		}
		emptyLater := rapid.IntRange(0, 3).Draw(t, "laterReplyHasNoBody") == 0
		setA()
		if _, err := cn.SendCommand(ctx, reused); err != nil {
			t.Fatalf("first call: %v", err)
		}
		setB()
		if emptyLater {
			w.BMC.Intercept = func(b *simbmc.BMC, rx *simbmc.Rx) {
				if rx.Msg != nil && !rx.Msg.IsResponse() && len(rx.Replies) == 1 {
					rx.Replies = []memnet.Out{b.Wrap(rx.Sess, b.ResponseFor(rx.Msg, 0, nil).Bytes())}
				}
			}
		}
		_, errR := cn.SendCommand(ctx, reused)
		_, errF := cn.SendCommand(ctx, fresh)
		w.BMC.Intercept = nil
		ev.Eval()
		if (errR == nil) != (errF == nil) {
			t.Fatalf("%s (later reply without body: %v): the reused command value returned err=%v, a fresh one err=%v", reused.Name(), emptyLater, errR, errF)
		}
		if !emptyLater && errR != nil {
			t.Fatalf("second call: %v", errR)
		}
		if errR == nil {
			if dr, df := hx.Dump(reused.Response()), hx.Dump(fresh.Response()); dr != df {
				t.Fatalf("%s: response in a reused command value differs from a fresh one\n reused: %s\n fresh:  %s", reused.Name(), dr, df)
			}
		}
		if emptyLater {
			ev.Label("command-reuse:later-reply-without-body")
		}
		ev.Label("command-reuse:" + reused.Name())
		ev.NonTrivial(fmt.Sprintf("reuse|%d|%s", kind, hx.Dump(fresh.Response())))
	})
}

// TestSessionPairs: a session opened on a connection that has already carried
// another session (different user, options and cipher-suite preferences, possibly
// failed, used and closed) negotiates the same algorithms, and answers a command
// the same way, as the same open on a fresh connection.
func TestSessionPairs(t *testing.T) {
	cat := hx.Catalogue()
	suites := hx.Suites9()
	ev.Check(t, "TestSessionPairs", ev.PickN(600, 60000), func(t *rapid.T) {
		seed := rapid.Uint64().Draw(t, "seed")
		genOpen := func(label string) (hx.Creds, []int) {
			c := hx.GenCreds(suites).Draw(t, label)
			n := rapid.IntRange(0, 3).Draw(t, label+"Prefs")
			pref := make([]int, n)
			for i := range pref {
				pref[i] = rapid.IntRange(0, len(suites)-1).Draw(t, label+"Suite")
			}
			return c, pref
		}
		a, prefA := genOpen("a")
		b, prefB := genOpen("b")
		b.KG = a.KG
		if b.User == a.User {
			b.Password = a.Password
		}
		advertised := rapid.IntRange(1, 1<<9-1).Draw(t, "advertised") | 1<<uint(rapid.IntRange(0, 8).Draw(t, "alsoAdvertised"))
		// SHA1/SHA1-96/AES and SHA256/SHA256-128/AES (the library's defaults for an
		// empty preference list) are suites 0 and 8 of the nine
		useA := rapid.Bool().Draw(t, "useA")
		closeA := rapid.Bool().Draw(t, "closeA")
		eb := rapid.SampledFrom(cat).Draw(t, "command")
		draw := rapid.IntRange(0, 1<<20).Draw(t, "draw")
		// the caller may keep one preference slice and hand it to every session it
		// opens (the fleet-scraper pattern); whatever an earlier discovery found must
		// not change it
		shareList := rapid.Bool().Draw(t, "samePreferenceSliceForBoth")
		if shareList {
			prefA = prefB
		}
		var shared []ipmi.CipherSuite
		opts := func(c hx.Creds, pref []int) *bmc.V2SessionOpts {
			o := c.Opts()
			o.CipherSuites = nil
			if shareList && shared != nil {
				o.CipherSuites = shared
				return o
			}
			for _, i := range pref {
				o.CipherSuites = append(o.CipherSuites, hx.LibSuite(suites[i]))
			}
			if shareList {
				shared = o.CipherSuites
			}
			return o
		}
		run := func(withA bool) string {
			w := hx.NewWorld(seed, true)
			a.Install(w.BMC)
			w.BMC.Users[b.User] = b.Password
			var recs []byte
			for i, s := range suites {
				if advertised&(1<<uint(i)) != 0 {
					r := ref.SuiteRecord{ID: byte(i + 1), Auth: s.Auth, Integs: []byte{s.Integ}, Confs: []byte{s.Conf}}
					recs = append(recs, r.Bytes()...)
				}
			}
			w.BMC.SuiteRecords = recs
			if withA {
				ctx, cancel := w.Ctx(40)
				sa, err := w.T.NewV2Session(ctx, opts(a, prefA))
				cancel()
				if err == nil && useA {
					ca := prepare(rapid.SampledFrom(cat).Example(draw), w.BMC, draw+1)
					ctx, cancel := w.Ctx(3)
					sa.SendCommand(ctx, ca.Cmd)
					cancel()
				}
				if err == nil && closeA {
					ctx, cancel := w.Ctx(3)
					sa.Close(ctx)
					cancel()
				}
			}
			// preparing A's command may have re-generated BMC-side data
			w.BMC.SuiteRecords = recs
			ctx, cancel := w.Ctx(40)
			sb, err := w.T.NewV2Session(ctx, opts(b, prefB))
			cancel()
			if err != nil {
				if os.Getenv("C17_DEBUG") != "" {
					fmt.Println("DEBUG open B:", err, w.BMC.AllProblems())
				}
				return "open failed"
			}
			out := fmt.Sprintf("auth=%v integrity=%v confidentiality=%v", sb.AuthenticationAlgorithm, sb.IntegrityAlgorithm, sb.ConfidentialityAlgorithm)
			cb := prepare(eb, w.BMC, draw+2)
			ctx, cancel = w.Ctx(3)
			code, err := sb.SendCommand(ctx, cb.Cmd)
			cancel()
			if err != nil {
				return out + fmt.Sprintf(" %s: code=%v error", cb.Name, code)
			}
			return out + fmt.Sprintf(" %s: code=%v %s", cb.Name, code, cb.Summary())
		}
		used := run(true)
		shared = nil
		fresh := run(false)
		ev.Eval()
		// the fresh result itself is pinned to the documented rule, so that state
		// kept beyond the connection (package level) cannot hide in both runs: the
		// first preference (default: SHA256 suite 17, then SHA1 suite 3) the BMC
		// advertises; a single preference is proposed as it is
		eff := prefB
		if len(eff) == 0 {
			eff = []int{8, 0}
		}
		want := -1
		if len(eff) == 1 {
			want = eff[0]
		} else {
			for _, i := range eff {
				if advertised&(1<<uint(i)) != 0 {
					want = i
					break
				}
			}
		}
		if want >= 0 {
			ws := hx.LibSuite(suites[want])
			pre := fmt.Sprintf("auth=%v integrity=%v confidentiality=%v", ws.AuthenticationAlgorithm, ws.IntegrityAlgorithm, ws.ConfidentialityAlgorithm)
			if !strings.HasPrefix(fresh, pre) {
				t.Fatalf("session opened on a fresh connection with preferences %v (advertised %09b): %s; the rule gives %s", prefB, advertised, fresh, pre)
			}
		} else if fresh != "open failed" {
			t.Fatalf("session opened with preferences %v although none is advertised (%09b): %s", prefB, advertised, fresh)
		}
		if used != fresh {
			t.Fatalf("session opened with preferences %v after an earlier session with preferences %v (advertised %09b) differs from the same open on a fresh connection:\n used:  %s\n fresh: %s", prefB, prefA, advertised, used, fresh)
		}
		if fresh != "open failed" {
			ev.Label("session-pair:second-open-established")
			if len(prefA) != 1 && len(prefB) != 1 {
				ev.Label("session-pair:both-discover")
			}
			ev.NonTrivial(fmt.Sprintf("sesspair|%v|%v|%d|%s", prefA, prefB, advertised, fresh))
		}
		ev.Sample(map[string]any{"part": "session pairs", "first preferences": prefA, "second preferences": prefB, "advertised": fmt.Sprintf("%09b", advertised), "result": fresh})
	})
}

func TestCoverage(t *testing.T) {
	ev.RequireLabels(t, 1, "pairs-complete", "method-pairs-complete", "sdr-retrieval-after-abandoned-walk", "long-sessions", "command-reuse:later-reply-without-body", "session-pair:second-open-established", "session-pair:both-discover", "layer-branch-differs:GetDeviceIDRsp", "layer-branch-differs:GetSessionInfoRsp", "layer-branch-differs:GetChassisStatusRsp",
		"layer-branch-differs:OpenSessionRsp", "layer-branch-differs:RAKPMessage2", "layer-branch-differs:GetDCMISensorInfoRsp", "layer-branch-differs:DCMICaps", "wrapper:V1Session", "wrapper:V2Session", "wrapper:Message", "wrapper-after-rejected:V2Session")
}
