package c17

import (
	"testing"

	"github.com/gebn/bmc/pkg/ipmi"
	"github.com/google/gopacket"

	"verif/harness/ref"
)

func TestRegressionV1AuthCode(t *testing.T) {
	a := (&ref.V1{AuthType: 2, Seq: 1, ID: 2, Code: [16]byte{1, 2, 3, 4, 5, 6, 7, 8, 9, 10, 11, 12, 13, 14, 15, 16}, Payload: []byte{1}}).Bytes()
	b := (&ref.V1{AuthType: 0, Seq: 3, ID: 4, Payload: []byte{2}}).Bytes()
	var s ipmi.V1Session
	if err := s.DecodeFromBytes(exact(a), gopacket.NilDecodeFeedback); err != nil {
		t.Fatal(err)
	}
	if err := s.DecodeFromBytes(exact(b), gopacket.NilDecodeFeedback); err != nil {
		t.Fatal(err)
	}
	ev.Eval()
	if s.AuthCode != [16]byte{} {
		ev.Violation("TestRegressionV1AuthCode", "auth type MD5 then none", "AuthCode of the earlier packet survives in the reused layer")
		t.Fatalf("AuthCode %x", s.AuthCode)
	}
}
