// Package evid collects what a check actually covered and writes the evidence
// file, prints VIOLATION lines and saves replay files. It also configures rapid
// from VERIF_SEED / VERIF_TIER so every run is a function of the code and seed.
package evid

import (
	"encoding/json"
	"flag"
	"fmt"
	"hash/fnv"
	"os"
	"path/filepath"
	"sort"
	"strconv"
	"strings"
	"sync"
	"testing"
	"time"

	"pgregory.net/rapid"
)

const maxSamples = 12

// E is the evidence collector for one property run (one process).
type E struct {
	mu          sync.Mutex
	ID          string
	Level       string
	Rule        string
	Tier        string
	Seed        int64
	Exhaustive  *bool
	Assumptions []string
	Extra       map[string]any

	evaluations int64
	distinct    map[uint64]struct{}
	labels      map[string]int64
	samples     []any
	violations  int
	known       []string
	start       time.Time
	checksRun   map[string]int64
	domains     []*Domain
}

var cur *E

// New creates the collector; call from TestMain.
func New(id, level, rule string) *E {
	e := &E{ID: id, Level: level, Rule: rule, distinct: map[uint64]struct{}{}, labels: map[string]int64{},
		start: time.Now(), Extra: map[string]any{}, checksRun: map[string]int64{}}
	e.Tier = os.Getenv("VERIF_TIER")
	if e.Tier != "thorough" {
		e.Tier = "quick"
	}
	s, _ := strconv.ParseInt(os.Getenv("VERIF_SEED"), 10, 64)
	e.Seed = s
	cur = e
	return e
}

func Cur() *E { return cur }

// Thorough reports whether the thorough tier was requested.
func (e *E) Thorough() bool { return e.Tier == "thorough" }

// Pick returns q in the quick tier, t in the thorough tier.
func (e *E) Pick(q, t int) int {
	if e.Thorough() {
		return t
	}
	return q
}

// PickN is Pick for generated-case counts: the thorough count is multiplied by
// VERIF_THOROUGH_SCALE (default 8) so the depth of the thorough tier can be
// tuned without touching the checks.
func (e *E) PickN(q, t int) int {
	if !e.Thorough() {
		return q
	}
	scale := 8
	if v, err := strconv.Atoi(os.Getenv("VERIF_THOROUGH_SCALE")); err == nil && v > 0 {
		scale = v
	}
	return t * scale
}

// RapidSeed maps VERIF_SEED to a non-zero rapid seed, varied per test name and
// shard.
func (e *E) RapidSeed(name string) uint64 {
	h := fnv.New64a()
	fmt.Fprintf(h, "%s/%s/%d/%s", e.ID, name, e.Seed, os.Getenv("VERIF_SHARD"))
	s := h.Sum64()
	if s == 0 {
		s = 0x9E3779B97F4A7C15
	}
	return s
}

// Eval counts one executed case.
func (e *E) Eval() {
	e.mu.Lock()
	e.evaluations++
	e.mu.Unlock()
}

// EvalN counts n executed cases.
func (e *E) EvalN(n int) {
	e.mu.Lock()
	e.evaluations += int64(n)
	e.mu.Unlock()
}

// NonTrivial records a case that satisfies the property's non-triviality rule;
// key identifies the case for distinctness.
func (e *E) NonTrivial(key string) {
	h := fnv.New64a()
	h.Write([]byte(key))
	e.mu.Lock()
	e.distinct[h.Sum64()] = struct{}{}
	e.mu.Unlock()
}

// Domain is a bitmap over an enumerated finite domain; the number of distinct
// points visited is measured by counting set bits.
type Domain struct {
	name string
	bits []uint64
	size int
}

// Domain registers (or returns) the bitmap for an enumerated domain of the
// given size.
func (e *E) Domain(name string, size int) *Domain {
	e.mu.Lock()
	defer e.mu.Unlock()
	for _, d := range e.domains {
		if d.name == name {
			return d
		}
	}
	d := &Domain{name: name, size: size, bits: make([]uint64, (size+63)/64)}
	e.domains = append(e.domains, d)
	return d
}

// Visit marks point i of the domain as explored and counts one evaluation.
func (d *Domain) Visit(i int) {
	d.bits[i/64] |= 1 << (uint(i) % 64)
}

func (d *Domain) count() int {
	n := 0
	for _, w := range d.bits {
		for ; w != 0; w &= w - 1 {
			n++
		}
	}
	return n
}

// Label increments a histogram bucket.
func (e *E) Label(l string) {
	e.mu.Lock()
	e.labels[l]++
	e.mu.Unlock()
}

func (e *E) LabelN(l string, n int) {
	e.mu.Lock()
	e.labels[l] += int64(n)
	e.mu.Unlock()
}

func (e *E) LabelCount(l string) int64 {
	e.mu.Lock()
	defer e.mu.Unlock()
	return e.labels[l]
}

// Sample keeps the first few cases and then a sparse selection.
func (e *E) Sample(v any) {
	e.mu.Lock()
	defer e.mu.Unlock()
	n := e.evaluations
	if len(e.samples) < maxSamples/2 {
		e.samples = append(e.samples, v)
		return
	}
	// keep cases at exponentially spaced positions
	if n&(n-1) == 0 && len(e.samples) < maxSamples*2 {
		e.samples = append(e.samples, v)
	}
}

func (e *E) SetExhaustive(b bool) { e.Exhaustive = &b }

func (e *E) Assume(s ...string) { e.Assumptions = append(e.Assumptions, s...) }

// replayDir is where shrunk failures are kept.
func replayDir() string {
	d := os.Getenv("VERIF_REPLAY_DIR")
	if d == "" {
		d = "/verif/replays"
	}
	os.MkdirAll(d, 0o755)
	return d
}

// Known findings ------------------------------------------------------------

type finding struct{ kind, prop, key, text string }

var (
	findingsOnce sync.Once
	findings     []finding
)

func loadFindings() {
	p := os.Getenv("VERIF_KNOWN_FINDINGS")
	if p == "" {
		p = "/verif/known_findings.txt"
	}
	b, err := os.ReadFile(p)
	if err != nil {
		return
	}
	for _, ln := range strings.Split(string(b), "\n") {
		ln = strings.TrimSpace(ln)
		if ln == "" || strings.HasPrefix(ln, "#") {
			continue
		}
		f := finding{}
		switch {
		case strings.HasPrefix(ln, "known:"):
			f.kind = "known"
			ln = strings.TrimSpace(ln[len("known:"):])
		case strings.HasPrefix(ln, "fixed:"):
			f.kind = "fixed"
			ln = strings.TrimSpace(ln[len("fixed:"):])
		default:
			continue
		}
		for _, w := range strings.Fields(ln) {
			if strings.HasPrefix(w, "property=") {
				f.prop = w[len("property="):]
			}
			if strings.HasPrefix(w, "key=") {
				f.key = w[len("key="):]
			}
		}
		f.text = ln
		findings = append(findings, f)
	}
}

// IsKnown reports whether a finding key is listed as known (not fixed) for this
// property. On first sighting it prints the KNOWN-FINDING line.
func (e *E) IsKnown(key string) bool {
	findingsOnce.Do(loadFindings)
	for _, f := range findings {
		if f.kind == "known" && f.prop == e.ID && f.key == key {
			e.mu.Lock()
			seen := false
			for _, k := range e.known {
				if k == key {
					seen = true
				}
			}
			if !seen {
				e.known = append(e.known, key)
				fmt.Printf("KNOWN-FINDING: property=%s %s\n", e.ID, f.text)
			}
			e.labels["known-finding:"+key]++
			e.mu.Unlock()
			return true
		}
	}
	return false
}

// Violation records a violation found by an enumerated (non-rapid) check, saves
// the case as a JSON replay file and prints the VIOLATION line.
func (e *E) Violation(name string, c any, msg string) string {
	b, _ := json.MarshalIndent(map[string]any{"property": e.ID, "check": name, "case": c, "message": msg}, "", " ")
	h := fnv.New32a()
	h.Write(b)
	p := filepath.Join(replayDir(), fmt.Sprintf("%s-%s-%08x.json", e.ID, name, h.Sum32()))
	os.WriteFile(p, b, 0o644)
	e.mu.Lock()
	e.violations++
	first := e.violations <= 5
	e.mu.Unlock()
	if first {
		fmt.Printf("VIOLATION property=%s replay=%s\n", e.ID, p)
		fmt.Printf("  detail: %s\n", msg)
	}
	return p
}

// Check runs a rapid property with a case count and a seed derived from
// VERIF_SEED; on failure it copies rapid's fail file to the replay directory and
// prints the VIOLATION line. If VERIF_REPLAY names a fail file for this test it
// is replayed instead of generating.
func (e *E) Check(t *testing.T, name string, checks int, prop func(*rapid.T)) {
	t.Helper()
	if checks < 1 {
		checks = 1
	}
	if sh := os.Getenv("VERIF_SHARDS"); sh != "" {
		if n, _ := strconv.Atoi(sh); n > 1 {
			checks = (checks + n - 1) / n
		}
	}
	flag.Set("rapid.checks", strconv.Itoa(checks))
	flag.Set("rapid.seed", strconv.FormatUint(e.RapidSeed(name), 10))
	flag.Set("rapid.failfile", "")
	if st := os.Getenv("VERIF_SHRINKTIME"); st != "" {
		flag.Set("rapid.shrinktime", st)
	}
	if rp := os.Getenv("VERIF_REPLAY"); rp != "" {
		if !strings.Contains(filepath.Base(rp), "-"+name+"-") {
			t.Skip("replay file is for another test")
		}
		flag.Set("rapid.failfile", rp)
	}
	os.RemoveAll(filepath.Join("testdata", "rapid", t.Name()))
	before := e.evaluations
	defer func() {
		e.mu.Lock()
		e.checksRun[name] = e.evaluations - before
		e.mu.Unlock()
		if t.Failed() {
			dst := ""
			m, _ := filepath.Glob(filepath.Join("testdata", "rapid", t.Name(), "*.fail"))
			if len(m) > 0 {
				sort.Strings(m)
				src := m[len(m)-1]
				b, _ := os.ReadFile(src)
				h := fnv.New32a()
				h.Write(b)
				dst = filepath.Join(replayDir(), fmt.Sprintf("%s-%s-%08x.fail", e.ID, name, h.Sum32()))
				os.WriteFile(dst, b, 0o644)
			} else if rp := os.Getenv("VERIF_REPLAY"); rp != "" {
				dst = rp
			}
			e.mu.Lock()
			e.violations++
			e.mu.Unlock()
			fmt.Printf("VIOLATION property=%s replay=%s\n", e.ID, dst)
		}
	}()
	rapid.Check(t, prop)
}

// RequireLabels fails the run as inconclusive (not as a violation) when the
// generator stopped producing a class the check needs.
func (e *E) RequireLabels(t *testing.T, min int64, labels ...string) {
	t.Helper()
	if os.Getenv("VERIF_REPLAY") != "" {
		return
	}
	for _, l := range labels {
		if e.LabelCount(l) < min {
			fmt.Printf("INCONCLUSIVE property=%s label %q seen %d times, need %d\n", e.ID, l, e.LabelCount(l), min)
			t.Errorf("generator coverage too low for label %q: %d < %d", l, e.LabelCount(l), min)
		}
	}
}

// Write emits the evidence file.
func (e *E) Write() {
	path := os.Getenv("VERIF_EVIDENCE")
	if path == "" {
		return
	}
	e.mu.Lock()
	defer e.mu.Unlock()
	cov := map[string]any{
		"evaluations":         e.evaluations,
		"distinct_nontrivial": len(e.distinct),
		"rule":                e.Rule,
		"samples":             e.samples,
		"labels":              e.labels,
		"cases_per_check":     e.checksRun,
	}
	if len(e.domains) > 0 {
		dm := map[string]any{}
		total := len(e.distinct)
		for _, d := range e.domains {
			c := d.count()
			dm[d.name] = map[string]int{"size": d.size, "visited": c}
			total += c
		}
		cov["domains"] = dm
		cov["distinct_nontrivial"] = total
	}
	if len(e.samples) == 0 {
		cov["samples"] = []any{}
	}
	if e.Exhaustive != nil {
		cov["exhaustive"] = *e.Exhaustive
	}
	for k, v := range e.Extra {
		cov[k] = v
	}
	if len(e.known) > 0 {
		cov["known_findings_seen"] = e.known
	}
	out := map[string]any{
		"property_id": e.ID,
		"tier":        e.Tier,
		"seed":        e.Seed,
		"level":       e.Level,
		"coverage":    cov,
		"assumptions": e.Assumptions,
		"wall_s":      time.Since(e.start).Seconds(),
		"violations":  e.violations,
	}
	if e.Assumptions == nil {
		out["assumptions"] = []string{}
	}
	b, err := json.MarshalIndent(out, "", " ")
	if err != nil {
		fmt.Fprintf(os.Stderr, "evidence marshal: %v\n", err)
		return
	}
	if s := os.Getenv("VERIF_SHARD"); s != "" {
		path = path + ".shard" + s
		hs := make([]uint64, 0, len(e.distinct))
		for h := range e.distinct {
			hs = append(hs, h)
		}
		cov["distinct_hashes"] = hs
		b, _ = json.Marshal(out)
	}
	os.MkdirAll(filepath.Dir(path), 0o755)
	if err := os.WriteFile(path, b, 0o644); err != nil {
		fmt.Fprintf(os.Stderr, "evidence write: %v\n", err)
	}
}

// Main is the TestMain body shared by all checks.
func Main(m *testing.M, e *E) {
	code := m.Run()
	e.Write()
	os.Exit(code)
}
