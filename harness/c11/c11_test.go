// C11: a result always comes from a response to the command that was sent.
package c11

import (
	"context"
	"fmt"
	"sync"
	"testing"
	"time"

	"github.com/gebn/bmc"
	"github.com/gebn/bmc/pkg/ipmi"
	"pgregory.net/rapid"

	"verif/harness/evid"
	"verif/harness/hx"
	"verif/harness/memnet"
	"verif/harness/ref"
	"verif/harness/simbmc"
	"verif/harness/udpnet"
)

var ev *evid.E

func TestMain(m *testing.M) {
	ev = evid.New("C11", "fault_enumeration",
		"every ordered pair (A, B) of distinct catalogue commands x fault kind {duplicate reply, reply delayed past the attempt (so a retransmission or a late arrival follows), "+
			"unsolicited reply of a third command, stray reply ahead of the right one} x {outside, inside a session}; history A(fault), B, A, B over a transport with UDP socket-queue "+
			"semantics (a left-over datagram is read by the next call). Oracle at the transport: for every call returning a nil error the last datagram delivered during that call is a "+
			"response whose NetFn/command (and group body code) match the request, and the returned value equals the BMC's data for that command; every call ends within its attempt "+
			"budget. Additionally, for every command, a stray response whose NetFn/command differ from the expected ones in single bits and whose bytes decode as the awaited response. Random histories of 2..6 calls add variety. Non-trivial = some call found a foreign reply at the head of its queue; distinct by (A, B, fault, mode)")
	ev.Assume("a stale reply of the same command type is indistinguishable (the library's message sequence number is constant) and outside the property")
	evid.Main(m, ev)
}

type conn interface {
	SendCommand(context.Context, ipmi.Command) (ipmi.CompletionCode, error)
}

// msgOf extracts the IPMI message of a delivered datagram, decrypting if needed.
func msgOf(d []byte, s *simbmc.Session) *ref.Msg {
	authLen := 0
	if s != nil {
		authLen = ref.IntegLen(s.Suite.Integ)
	}
	p, err := ref.ParsePacket(d, authLen)
	if err != nil {
		if p, err = ref.ParsePacket(d, 0); err != nil {
			return nil
		}
	}
	payload := p.Payload
	if p.Encrypted && s != nil {
		_, pl, _, err := ref.AESDecrypt(s.K2, payload)
		if err != nil {
			return nil
		}
		payload = pl
	}
	m, err := ref.ParseMsg(payload)
	if err != nil {
		return nil
	}
	return m
}

func prepare(e hx.Entry, b *simbmc.BMC, draw int) *hx.Call {
	var call *hx.Call
	g := rapid.Custom(func(t *rapid.T) int { call = e.Prepare(t, b); return 0 })
	g.Example(draw)
	return call
}

type step struct {
	Entry string
	Fault string // "", duplicate, delayed, unsolicited, stray, stray-lost, stray-expire
	// StrayCC is the completion code carried by an unsolicited/stray datagram.
	StrayCC byte
}

// runHistory executes the steps and returns a violation message.
func runHistory(suite ref.Suite, inSession bool, steps []step, seed uint64, draw int) (msg string, foreign bool) {
	c := hx.Creds{User: "admin", Password: []byte("pw"), Priv: 4, Suite: suite, Seed: seed}
	w := hx.NewWorldFor(c, true)
	var cn conn = w.T
	var bs *simbmc.Session
	if inSession {
		s, err := w.T.NewV2Session(context.Background(), c.Opts())
		if err != nil {
			return "harness: session failed: " + err.Error(), false
		}
		cn, bs = s, w.BMC.ActiveSession()
	}
	// prepare one call value per distinct entry so BMC data stays put
	calls := map[string]*hx.Call{}
	for i, st := range steps {
		if calls[st.Entry] == nil {
			calls[st.Entry] = prepare(hx.CatalogueEntry(st.Entry), w.BMC, draw+i*7919)
		}
	}
	// a third command's reply used for unsolicited / stray datagrams
	var strayCC byte
	strayReply := func(b *simbmc.BMC, rx *simbmc.Rx) memnet.Out {
		req := &ref.Msg{RsAddr: 0x20, NetFn: ref.NetFnApp, RqAddr: 0x81, RqSeq: 1, Cmd: 0x4E} // Get Channel Info: not in the catalogue
		return b.Wrap(bs, b.ResponseFor(req, strayCC, []byte{1, 4, 0x81, 2, 0, 0, 0, 0, 0}).Bytes())
	}
	for i, st := range steps {
		call := calls[st.Entry]
		// a fresh command value of the same kind keeps earlier decoded data out
		call = prepareSame(st.Entry, w.BMC, call)
		first := true
		strayCC = st.StrayCC
		attempt := 0
		w.BMC.Intercept = func(b *simbmc.BMC, rx *simbmc.Rx) {
			if st.Fault == "busy-then-stray" && rx.Msg != nil && !rx.Msg.IsResponse() && len(rx.Replies) > 0 {
				// the command's own first answer is "node busy"; when the library
				// sends it again, a reply to another command is read before the
				// genuine one
				attempt++
				switch attempt {
				case 1:
					rx.Replies = []memnet.Out{b.Wrap(rx.Sess, b.ResponseFor(rx.Msg, 0xC0, nil).Bytes())}
				case 2:
					rx.Replies = append([]memnet.Out{strayReply(b, rx)}, rx.Replies...)
				}
				return
			}
			if (st.Fault == "stray-lost" || st.Fault == "stray-expire") && rx.Msg != nil {
				// the stray is all this call ever receives: its own replies are lost
				rx.Replies = nil
				if first {
					rx.Replies = []memnet.Out{strayReply(b, rx)}
				}
				first = false
				return
			}
			if !first || len(rx.Replies) == 0 {
				return
			}
			first = false
			switch st.Fault {
			case "duplicate":
				rx.Replies = append(rx.Replies, memnet.Out{Data: append([]byte(nil), rx.Replies[0].Data...)})
			case "delayed":
				rx.Replies[0].Delay = 1
			case "stray":
				rx.Replies = append([]memnet.Out{strayReply(b, rx)}, rx.Replies...)
			}
		}
		if st.Fault == "unsolicited" {
			w.Net.Inject(strayReply(w.BMC, nil).Data)
		}
		headForeign := false
		if w.Net.QueueLen() > 0 {
			headForeign = true
		}
		delivered := len(w.Net.Delivered)
		start := w.Net.Sends
		budget := 8
		if st.Fault == "stray-expire" {
			budget = 1 // the context ends while the stray is being read
		}
		ctx, cancel := w.Ctx(budget)
		if (draw+i)%2 == 0 {
			// the caller's context also has a deadline, closer than one attempt
			// timeout (an hour here) but far beyond this call
			var cancelDeadline context.CancelFunc
			ctx, cancelDeadline = context.WithTimeout(ctx, time.Minute)
			defer cancelDeadline()
			if st.Fault != "" {
				ev.Label("deadline-within-one-attempt-timeout:" + st.Fault)
			}
		}
		code, err := cn.SendCommand(ctx, call.Cmd)
		cancel()
		sends := w.Net.Sends - start
		if sends > 8 {
			return fmt.Sprintf("step %d (%s): %d transmissions, beyond the attempt budget", i, call.Name, sends), foreign
		}
		if st.Fault == "stray" || st.Fault == "stray-lost" || st.Fault == "stray-expire" || st.Fault == "busy-then-stray" {
			headForeign = true
		}
		foreign = foreign || headForeign
		if err != nil {
			continue // an error is always allowed by the property
		}
		if len(w.Net.Delivered) == delivered {
			return fmt.Sprintf("step %d (%s): nil error although no datagram was delivered during the call", i, call.Name), foreign
		}
		last := w.Net.Delivered[len(w.Net.Delivered)-1]
		m := msgOf(last, bs)
		wantNetFn, wantCmd := byte(call.Key>>8)|1, byte(call.Key)
		if m == nil || m.NetFn != wantNetFn || m.Cmd != wantCmd {
			got := "undecodable"
			if m != nil {
				got = fmt.Sprintf("NetFn %#x cmd %#x", m.NetFn, m.Cmd)
			}
			return fmt.Sprintf("step %d (%s, fault %q at this step, history %v): call returned (code %v, nil error) but the last datagram delivered is a response for %s, not NetFn %#x cmd %#x",
				i, call.Name, st.Fault, steps, code, got, wantNetFn, wantCmd), foreign
		}
		if m.CC != byte(code) {
			return fmt.Sprintf("step %d (%s): completion code %#x returned, the matching reply carried %#x", i, call.Name, byte(code), m.CC), foreign
		}
		if r, ok := call.Cmd.(*ipmi.ReserveSDRRepositoryCmd); ok && code == 0 {
			// the reservation changes with every request served, so the value is
			// compared with the one carried by the reply that was delivered
			if len(m.Data) < 2 || uint16(r.Rsp.ReservationID) != uint16(m.Data[0])|uint16(m.Data[1])<<8 {
				return fmt.Sprintf("step %d (%s): reservation %#x returned, the delivered reply carries % x", i, call.Name, r.Rsp.ReservationID, m.Data), foreign
			}
		} else if code == 0 {
			if cerr := call.Check(); cerr != nil {
				return fmt.Sprintf("step %d (%s, history %v): value returned is not the BMC's for this command: %v", i, call.Name, steps, cerr), foreign
			}
		}
	}
	return "", foreign
}

// prepareSame builds a fresh command value for the entry whose expectations are
// the ones of the first preparation (the BMC data is not regenerated).
func prepareSame(entry string, b *simbmc.BMC, first *hx.Call) *hx.Call {
	return first.Fresh()
}

var faults = []string{"duplicate", "delayed", "unsolicited", "stray", "stray-lost", "stray-expire", "busy-then-stray"}

// strayCodes are the completion codes a stray datagram may carry: normal,
// the temporary ones (node busy, timeout, out of space...), and permanent ones.
var strayCodes = []byte{0x00, 0xC0, 0xC3, 0xC4, 0xC1, 0xC9, 0xD4, 0xFF, 0x81}

func TestPairs(t *testing.T) {
	cat := append(hx.Catalogue(), hx.RawEntries()...) // library commands and caller-defined ones
	suites := hx.Suites9()
	n := 0
	for _, inSession := range []bool{false, true} {
		for ai, a := range cat {
			for bi, b := range cat {
				if ai == bi {
					continue
				}
				for _, f := range faults {
					n++
					steps := []step{{a.Name, f, 0}, {b.Name, "", 0}, {a.Name, "", 0}, {b.Name, "", 0}}
					cc := strayCodes[(n/len(faults))%len(strayCodes)]
					if f == "unsolicited" || f == "stray" || f == "stray-lost" || f == "stray-expire" || f == "busy-then-stray" {
						steps = []step{{a.Name, "", 0}, {b.Name, f, cc}, {a.Name, "", 0}, {b.Name, "", 0}}
					}
					msg, foreign := runHistory(suites[(n+int(ev.Seed))%9], inSession, steps, uint64(ev.Seed)*65537+uint64(n), n*13+int(ev.Seed))
					ev.Eval()
					if msg != "" {
						ev.Violation("TestPairs", map[string]any{"inSession": inSession, "steps": steps, "n": n}, msg)
						t.Fatalf("inSession=%v: %s", inSession, msg)
					}
					if foreign {
						ev.NonTrivial(fmt.Sprintf("%v|%s|%s|%s", inSession, a.Name, b.Name, f))
						ev.Label(fmt.Sprintf("foreign-head:%s:inSession=%v", f, inSession))
					}
					if n%97 == 0 {
						ev.Sample(map[string]any{"inSession": inSession, "steps": steps})
					}
				}
			}
		}
	}
	ev.Label("pairs-complete")
}

// TestNeighbourOperations: for every catalogue command a stray response whose
// (NetFn, command) differs from the expected response's in one bit (or one bit
// each), carrying exactly the bytes the real response would carry, sits ahead of
// the real response. It decodes perfectly well as the awaited response, so only
// the operation comparison can reject it.
func TestNeighbourOperations(t *testing.T) {
	cat := append(hx.Catalogue(), hx.RawEntries()...) // library commands and caller-defined ones
	suites := hx.Suites9()
	type mask struct{ nf, cmd byte }
	var masks []mask
	for b := uint(0); b < 8; b++ {
		masks = append(masks, mask{0, 1 << b})
	}
	for b := uint(1); b < 6; b++ { // bit 0 of the NetFn stays set: still a response
		masks = append(masks, mask{1 << b, 0})
		if ev.Thorough() {
			for c := uint(0); c < 8; c++ {
				masks = append(masks, mask{1 << b, 1 << c})
			}
		}
	}
	n := 0
	for _, inSession := range []bool{false, true} {
		for _, e := range cat {
			for _, mk := range masks {
				n++
				c := hx.Creds{User: "admin", Password: []byte("pw"), Priv: 4, Suite: suites[(n+int(ev.Seed))%9], Seed: uint64(ev.Seed)*977 + uint64(n)}
				w := hx.NewWorldFor(c, true)
				var cn conn = w.T
				var bs *simbmc.Session
				if inSession {
					s, err := w.T.NewV2Session(context.Background(), c.Opts())
					if err != nil {
						t.Fatalf("harness: %v", err)
					}
					cn, bs = s, w.BMC.ActiveSession()
				}
				call := prepare(e, w.BMC, n*31+int(ev.Seed))
				first := true
				w.BMC.Intercept = func(b *simbmc.BMC, rx *simbmc.Rx) {
					if !first || rx.Msg == nil || len(rx.Replies) == 0 {
						return
					}
					first = false
					// the real response message with its operation changed
					real := b.ResponseFor(rx.Msg, 0, nil)
					if m := msgOf(rx.Replies[0].Data, bs); m != nil {
						real = m
					}
					stray := *real
					stray.NetFn ^= mk.nf
					stray.Cmd ^= mk.cmd
					rx.Replies = append([]memnet.Out{b.Wrap(bs, stray.Bytes())}, rx.Replies...)
				}
				delivered := len(w.Net.Delivered)
				ctx, cancel := w.Ctx(8)
				code, err := cn.SendCommand(ctx, call.Cmd)
				cancel()
				ev.Eval()
				ev.NonTrivial(fmt.Sprintf("nb|%v|%s|%x|%x", inSession, e.Name, mk.nf, mk.cmd))
				if err != nil {
					continue
				}
				last := msgOf(w.Net.Delivered[len(w.Net.Delivered)-1], bs)
				wantNetFn, wantCmd := byte(call.Key>>8)|1, byte(call.Key)
				if len(w.Net.Delivered) == delivered || last == nil || last.NetFn != wantNetFn || last.Cmd != wantCmd {
					msg := fmt.Sprintf("inSession=%v %s: call returned (code %v, nil error) on a stray response for NetFn %#x cmd %#x (expected response: NetFn %#x cmd %#x)",
						inSession, call.Name, code, wantNetFn^mk.nf, wantCmd^mk.cmd, wantNetFn, wantCmd)
					ev.Violation("TestNeighbourOperations", map[string]any{"inSession": inSession, "command": e.Name, "netfnMask": mk.nf, "cmdMask": mk.cmd}, msg)
					t.Fatalf("%s", msg)
				}
			}
		}
	}
	ev.Label("neighbour-operations-complete")
}

func TestRandomHistories(t *testing.T) {
	cat := append(hx.Catalogue(), hx.RawEntries()...) // library commands and caller-defined ones
	ev.Check(t, "TestRandomHistories", ev.PickN(1200, 600000), func(t *rapid.T) {
		inSession := rapid.Bool().Draw(t, "inSession")
		n := rapid.IntRange(2, 6).Draw(t, "calls")
		steps := make([]step, n)
		for i := range steps {
			steps[i].Entry = rapid.SampledFrom(cat).Draw(t, "entry").Name
			if rapid.IntRange(0, 2).Draw(t, "faulty") == 0 {
				steps[i].Fault = rapid.SampledFrom(faults).Draw(t, "fault")
				steps[i].StrayCC = rapid.SampledFrom(strayCodes).Draw(t, "strayCode")
			}
		}
		msg, foreign := runHistory(rapid.SampledFrom(hx.Suites12()).Draw(t, "suite"), inSession, steps, rapid.Uint64().Draw(t, "seed"), rapid.IntRange(0, 1<<20).Draw(t, "draw"))
		ev.Eval()
		if msg != "" {
			t.Fatalf("inSession=%v: %s", inSession, msg)
		}
		if foreign {
			ev.NonTrivial(fmt.Sprintf("%v|%v", inSession, steps))
		}
		ev.Sample(map[string]any{"inSession": inSession, "steps": steps})
	})
}

// TestHighLevelMethods: the convenience methods of a connection / session (which
// may take their own route to the transport) behind a stray reply to another
// command: a nil error must rest on a reply to the method's own command that
// carries the normal completion code.
func TestHighLevelMethods(t *testing.T) {
	type method struct {
		name       string
		netfn, cmd byte
		call       func(ctx context.Context, s bmc.Session) error
	}
	methods := []method{
		{"GetSystemGUID", ref.NetFnApp, ref.CmdGetSystemGUID, func(ctx context.Context, s bmc.Session) error { _, err := s.GetSystemGUID(ctx); return err }},
		{"GetChannelAuthenticationCapabilities", ref.NetFnApp, ref.CmdGetChanAuthCap, func(ctx context.Context, s bmc.Session) error {
			_, err := s.GetChannelAuthenticationCapabilities(ctx, &ipmi.GetChannelAuthenticationCapabilitiesReq{Channel: ipmi.ChannelPresentInterface, MaxPrivilegeLevel: ipmi.PrivilegeLevelUser})
			return err
		}},
		{"GetSessionInfo", ref.NetFnApp, ref.CmdGetSessionInfo, func(ctx context.Context, s bmc.Session) error {
			_, err := s.GetSessionInfo(ctx, &ipmi.GetSessionInfoReq{Index: ipmi.SessionIndexCurrent})
			return err
		}},
		{"GetDeviceID", ref.NetFnApp, ref.CmdGetDeviceID, func(ctx context.Context, s bmc.Session) error { _, err := s.GetDeviceID(ctx); return err }},
		{"GetChassisStatus", ref.NetFnChassis, ref.CmdChassisStatus, func(ctx context.Context, s bmc.Session) error { _, err := s.GetChassisStatus(ctx); return err }},
		{"ChassisControl", ref.NetFnChassis, ref.CmdChassisControl, func(ctx context.Context, s bmc.Session) error {
			return s.ChassisControl(ctx, ipmi.ChassisControlPowerCycle)
		}},
		{"GetSDRRepositoryInfo", ref.NetFnStorage, ref.CmdSDRRepoInfo, func(ctx context.Context, s bmc.Session) error { _, err := s.GetSDRRepositoryInfo(ctx); return err }},
		{"ReserveSDRRepository", ref.NetFnStorage, ref.CmdReserveSDR, func(ctx context.Context, s bmc.Session) error { _, err := s.ReserveSDRRepository(ctx); return err }},
		{"GetSensorReading", ref.NetFnSensor, ref.CmdSensorReading, func(ctx context.Context, s bmc.Session) error { _, err := s.GetSensorReading(ctx, 4); return err }},
		{"GetSessionPrivilegeLevel", ref.NetFnApp, ref.CmdSetSessPriv, func(ctx context.Context, s bmc.Session) error { _, err := s.GetSessionPrivilegeLevel(ctx); return err }},
		{"SetSessionPrivilegeLevel", ref.NetFnApp, ref.CmdSetSessPriv, func(ctx context.Context, s bmc.Session) error {
			_, err := s.SetSessionPrivilegeLevel(ctx, ipmi.PrivilegeLevelUser)
			return err
		}},
		{"Close", ref.NetFnApp, ref.CmdCloseSession, func(ctx context.Context, s bmc.Session) error { return s.Close(ctx) }},
	}
	suites := hx.Suites12()
	n := 0
	for _, m := range methods {
		for _, strayCC := range []byte{0x00, 0xD4, 0xC1} {
			for _, refuse := range []bool{false, true} {
				for _, strays := range []int{1, 2} {
					n++
					c := hx.Creds{User: "admin", Password: []byte("pw"), Priv: 4, Suite: suites[(n+int(ev.Seed))%len(suites)], Seed: uint64(ev.Seed)*977 + uint64(n)}
					w := hx.NewWorldFor(c, true)
					s, err := w.T.NewV2Session(context.Background(), c.Opts())
					if err != nil {
						t.Fatalf("harness: %v", err)
					}
					bs := w.BMC.ActiveSession()
					w.BMC.Data.Sensors = map[uint16]ref.SensorReading{4: {Reading: 9, Scanning: true}}
					if refuse {
						// the BMC's own answer to this command is a refusal, so success
						// can only have come from somewhere else
						w.BMC.Intercept = func(b *simbmc.BMC, rx *simbmc.Rx) {
							if rx.Msg != nil && !rx.Msg.IsResponse() && rx.Sess != nil {
								rx.Replies = []memnet.Out{b.Wrap(rx.Sess, b.ResponseFor(rx.Msg, 0xD4, nil).Bytes())}
							}
						}
					}
					for k := 0; k < strays; k++ {
						req := &ref.Msg{RsAddr: 0x20, NetFn: ref.NetFnApp, RqAddr: 0x81, RqSeq: byte(k + 1), Cmd: 0x42}
						w.Net.Inject(w.BMC.Wrap(bs, w.BMC.ResponseFor(req, strayCC, []byte{1, 4, 0x81, 2, 0, 0, 0, 0, 0}).Bytes()).Data)
					}
					delivered := len(w.Net.Delivered)
					ctx, cancel := w.Ctx(6)
					err = m.call(ctx, s)
					cancel()
					ev.Eval()
					cs := map[string]any{"method": m.name, "strayCode": strayCC, "bmcRefuses": refuse, "strays": strays, "suite": c.Suite.String()}
					if err == nil {
						last := w.Net.Delivered[len(w.Net.Delivered)-1]
						msg := msgOf(last, bs)
						if len(w.Net.Delivered) == delivered || msg == nil || msg.NetFn != m.netfn|1 || msg.Cmd != m.cmd || msg.CC != 0 {
							got := "nothing decodable"
							if msg != nil {
								got = fmt.Sprintf("a reply for NetFn %#x cmd %#x with code %#x", msg.NetFn, msg.Cmd, msg.CC)
							}
							text := fmt.Sprintf("%s returned a nil error, but the last datagram delivered is %s (want a normal reply for NetFn %#x cmd %#x)", m.name, got, m.netfn|1, m.cmd)
							ev.Violation("TestHighLevelMethods", cs, text)
							t.Fatalf("%v: %s", cs, text)
						}
					}
					ev.NonTrivial(fmt.Sprintf("hl|%s|%d|%v|%d", m.name, strayCC, refuse, strays))
					ev.Label("high-level:" + m.name)
				}
			}
		}
	}
	ev.Label("high-level-methods-complete")
}

// TestUDPStaleBehindReply: over the real UDP transport, the BMC's reply to command
// B is followed at once by a duplicate of its earlier reply to command A, so the
// stale datagram is already queued when B's reply is accepted. B's result must be
// the BMC's value for B (whatever the library does with the queue), and a third
// command C must then get its own value too.
func TestUDPStaleBehindReply(t *testing.T) {
	names := []string{"GetSystemGUID", "GetDeviceID", "GetChannelAuthenticationCapabilities", "GetChassisStatus"}
	type ucase struct {
		a, b, c   string
		inSession bool
	}
	var cases []ucase
	for i, a := range names {
		for j, b := range names {
			if i != j {
				cases = append(cases, ucase{a, b, names[(j+1+(i+j)%2)%len(names)], (i+j)%2 == 0})
			}
		}
	}
	var wg sync.WaitGroup
	var mu sync.Mutex
	var firstMsg string
	for i, c := range cases {
		i, c := i, c
		if c.c == c.a || c.c == c.b {
			for _, n := range names {
				if n != c.a && n != c.b {
					c.c = n
				}
			}
		}
		wg.Add(1)
		go func() {
			defer wg.Done()
			run := func() string {
				cr := hx.Creds{User: "admin", Password: []byte("pw"), Priv: 4, Suite: hx.Suites9()[(i+int(ev.Seed))%9], Seed: uint64(ev.Seed)*19 + uint64(i)}
				b := simbmc.New(cr.Seed)
				cr.Install(b)
				ca, cb, cc := prepare(hx.CatalogueEntry(c.a), b, i*3+int(ev.Seed)), prepare(hx.CatalogueEntry(c.b), b, i*5+1), prepare(hx.CatalogueEntry(c.c), b, i*7+2)
				srv, err := udpnet.Listen(b)
				if err != nil {
					return ""
				}
				defer srv.Close()
				tr, err := bmc.DialV2(srv.Addr(), bmc.WithTimeout(300*time.Millisecond))
				if err != nil {
					return ""
				}
				defer tr.Close()
				ctx, cancel := context.WithTimeout(context.Background(), 20*time.Second)
				defer cancel()
				var cn conn = tr
				if c.inSession {
					s, err := tr.NewV2Session(ctx, cr.Opts())
					if err != nil {
						return ""
					}
					cn = s
				}
				var replyA []byte
				stage := 0
				srv.Arm(func(rx *simbmc.Rx) []udpnet.Reply {
					var out []udpnet.Reply
					for _, o := range rx.Replies {
						out = append(out, udpnet.Reply{Data: o.Data})
					}
					if rx.Msg == nil || rx.Msg.IsResponse() || len(out) == 0 {
						return out
					}
					switch stage {
					case 0:
						replyA = append([]byte(nil), out[0].Data...)
					case 1:
						out = append(out, udpnet.Reply{Data: replyA}) // stale duplicate right behind B's reply
					}
					return out
				})
				where := fmt.Sprintf("UDP inSession=%v: %s, then %s answered with its reply followed by a duplicate of the %s reply, then %s", c.inSession, ca.Name, cb.Name, ca.Name, cc.Name)
				if _, err := cn.SendCommand(ctx, ca.Cmd); err != nil {
					return ""
				}
				srv.Lock()
				stage = 1
				srv.Unlock()
				code, err := cn.SendCommand(ctx, cb.Cmd)
				srv.Lock()
				stage = 2
				srv.Unlock()
				if err == nil && code == 0 {
					if cerr := cb.Check(); cerr != nil {
						return fmt.Sprintf("%s: the value returned for %s is not the BMC's: %v", where, cb.Name, cerr)
					}
				}
				code, err = cn.SendCommand(ctx, cc.Cmd)
				if err == nil && code == 0 {
					if cerr := cc.Check(); cerr != nil {
						return fmt.Sprintf("%s: the value returned for the following %s is not the BMC's: %v", where, cc.Name, cerr)
					}
				}
				return ""
			}
			// the oracle counts datagrams against the real clock: a mismatch has to
			// repeat in three runs in a row before it counts (a stalled machine does not
			// stall the same way three times; a defect does)
			msg := ""
			for try := 0; try < 3; try++ {
				if msg = run(); msg == "" {
					break
				}
			}
			mu.Lock()
			defer mu.Unlock()
			ev.Eval()
			ev.NonTrivial(fmt.Sprintf("udp-stale|%s|%s|%v", c.a, c.b, c.inSession))
			ev.Label("udp:stale-reply-behind-the-right-one")
			if msg != "" && firstMsg == "" {
				firstMsg = msg
				ev.Violation("TestUDPStaleBehindReply", map[string]any{"a": c.a, "b": c.b, "c": c.c, "inSession": c.inSession}, msg)
			}
		}()
	}
	wg.Wait()
	if firstMsg != "" {
		t.Fatalf("%s", firstMsg)
	}
}

func TestCoverage(t *testing.T) {
	need := []string{"pairs-complete", "neighbour-operations-complete", "high-level-methods-complete", "high-level:ChassisControl", "high-level:Close", "udp:stale-reply-behind-the-right-one"}
	for _, f := range faults {
		need = append(need, "foreign-head:"+f+":inSession=true", "foreign-head:"+f+":inSession=false", "deadline-within-one-attempt-timeout:"+f)
	}
	ev.RequireLabels(t, 1, need...)
}
