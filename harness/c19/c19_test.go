// C19: independent connections can be used concurrently without interference.
// Built with -race by the driver.
package c19

import (
	"context"
	"fmt"
	"runtime"
	"strings"
	"sync"
	"sync/atomic"
	"testing"
	"time"

	"github.com/cenkalti/backoff/v4"
	"github.com/gebn/bmc"
	"github.com/gebn/bmc/pkg/dcmi"
	"github.com/gebn/bmc/pkg/ipmi"

	"verif/harness/evid"
	"verif/harness/hx"
	"verif/harness/memnet"
	"verif/harness/ref"
	"verif/harness/simbmc"
	"verif/harness/udpnet"
)

var ev *evid.E

func TestMain(m *testing.M) {
	ev = evid.New("C19", "exploration",
		"N in {2,4,8,16} goroutines, each with its own simulated BMC (alternating real UDP through DialV2 and the in-memory transport) runs a seeded workload: handshake with a "+
			"seed-chosen suite, catalogue commands, an SDR repository walk, DCMI sensor enumeration, session close; GOMAXPROCS in {2,4,16}; repeated. Oracle: (i) the binary is built with "+
			"the race detector - any report fails the run; (ii) differential: each goroutine's results and its BMC's normalised datagram log (payload types, session sequence numbers, "+
			"decrypted messages; console randoms, AuthCodes and IVs excluded) equal those of the same seed run alone. Non-trivial = >= 2 workloads overlapped in time (measured); "+
			"distinct by (N, GOMAXPROCS, seeds)")
	ev.Assume("schedule sampling: a race that needs a rare interleaving and leaves no conflicting access visible to the detector's happens-before analysis can be missed")
	evid.Main(m, ev)
}

type prng struct{ s uint64 }

func (p *prng) next() uint64 {
	p.s += 0x9E3779B97F4A7C15
	z := p.s
	z = (z ^ (z >> 30)) * 0xBF58476D1CE4E5B9
	z = (z ^ (z >> 27)) * 0x94D049BB133111EB
	return z ^ (z >> 31)
}
func (p *prng) intn(n int) int { return int(p.next() % uint64(n)) }

// normalise renders a BMC log without the values that are random per run.
func normalise(b *simbmc.BMC) string {
	var sb strings.Builder
	for _, rx := range b.Log {
		if rx.Pkt == nil {
			fmt.Fprintf(&sb, "unparsed:%x;", rx.Raw)
			continue
		}
		fmt.Fprintf(&sb, "pt=%#x seq=%d ", rx.Pkt.PayloadType, rx.Pkt.Seq)
		switch {
		case rx.OpenReq != nil:
			fmt.Fprintf(&sb, "open:%+v", *rx.OpenReq)
		case rx.RAKP1 != nil:
			fmt.Fprintf(&sb, "rakp1:role=%#x user=%q", rx.RAKP1.Role, rx.RAKP1.User)
		case rx.RAKP3 != nil:
			fmt.Fprintf(&sb, "rakp3:status=%d", rx.RAKP3.Status)
		case rx.Msg != nil:
			fmt.Fprintf(&sb, "msg:%x", rx.Msg.Bytes())
		}
		fmt.Fprintf(&sb, " problems=%v;", rx.Problems)
	}
	return sb.String()
}

type result struct {
	summary string
	log     string
	start   time.Time
	end     time.Time
	err     error
}

// workload runs one seeded workload against its own BMC.
func workload(seed uint64, udp bool) (r result) {
	p := &prng{seed}
	suite := hx.Suites9()[p.intn(9)]
	discover := p.intn(2) == 0
	if discover {
		suite = []ref.Suite{{Auth: 3, Integ: 4, Conf: 1}, {Auth: 1, Integ: 1, Conf: 1}}[p.intn(2)]
	}
	c := hx.Creds{User: fmt.Sprintf("user%d", p.intn(100)), Password: []byte(fmt.Sprintf("pw%d", p.next()%1000000007)), Priv: uint8(2 + p.intn(3)), Suite: suite, Seed: p.next()}
	if (seed>>24)%2 == 0 {
		// fleet-wide credentials: about half of the BMCs share user and password
		// (and so every key derived from the password alone)
		c.User, c.Password = "fleet", []byte("one password for all")
	}
	b := simbmc.New(c.Seed)
	c.Install(b)
	// advertised suites, split over several records and chunks
	b.SuiteRecords = append((&ref.SuiteRecord{OEM: true, ID: 0x81, IANA: 0x1234, Auth: 2, Integs: []byte{2, 3}, Confs: []byte{1, 2}}).Bytes(),
		(&ref.SuiteRecord{ID: byte(p.intn(20)), Auth: suite.Auth, Integs: []byte{suite.Integ}, Confs: []byte{suite.Conf}}).Bytes()...)
	b.SuiteRecords = append(b.SuiteRecords, (&ref.SuiteRecord{ID: 9, Auth: 2, Integs: []byte{2}, Confs: []byte{1, 3}}).Bytes()...)
	// repository and DCMI data: record IDs, types and all four ID-string
	// encodings vary with the seed
	nrec := 6 + p.intn(15)
	for i := 0; i < nrec; i++ {
		id := uint16(1 + i*3 + p.intn(3))
		if p.intn(4) == 0 {
			b.Data.Repo.Records = append(b.Data.Repo.Records, simbmc.Record{ID: id, Bytes: ref.SDRHeader(id, 1, 5, ref.RecCompact, 0)})
			continue
		}
		ids := ref.IDString{Enc: byte(p.intn(4))}
		nch := 2 + p.intn(14)
		for k := 0; k < nch; k++ {
			switch ids.Enc {
			case ref.EncBCDPlus:
				ids.Codes = append(ids.Codes, byte(p.intn(16)))
			case ref.Enc6Bit:
				ids.Codes = append(ids.Codes, byte(p.intn(64)))
			default:
				ids.Codes = append(ids.Codes, byte(0x30+p.intn(40)))
			}
		}
		f := ref.FSR{Number: byte(p.intn(256)), M: p.intn(1024) - 512, B: p.intn(1024) - 512, K1: p.intn(16) - 8, K2: p.intn(16) - 8, Format: byte(p.intn(3)), Lin: byte(p.intn(12)), ID: ids}
		b.Data.Repo.Records = append(b.Data.Repo.Records, simbmc.Record{ID: id, Bytes: f.Record(id)})
	}
	b.Data.Repo.AddTS, b.Data.Repo.EraseTS = 100, 50
	for _, e := range []byte{0x37, 0x03, 0x07} {
		n := p.intn(12)
		ids := make([]uint16, n)
		for i := range ids {
			ids[i] = uint16(p.intn(65535))
		}
		b.Data.DCMIIDs[e] = ids
	}
	b.Data.DCMIPage = 1 + p.intn(8)
	for i := range b.GUID {
		b.GUID[i] = byte(p.next())
	}
	b.Data.DeviceID.Product = uint16(p.next())

	var t *bmc.V2SessionlessTransport
	var srv *udpnet.Server
	if udp {
		var err error
		srv, err = udpnet.Listen(b)
		if err != nil {
			r.err = err
			return
		}
		defer srv.Close()
		t, err = bmc.DialV2(srv.Addr(), bmc.WithTimeout(2*time.Second))
		if err != nil {
			r.err = err
			return
		}
		defer t.Close()
	} else {
		n := &memnet.Net{Peer: b.Peer, Strict: true}
		t = bmc.NewV2SessionlessTransportForVerif(n, time.Hour, &backoff.ZeroBackOff{})
	}
	r.start = time.Now()
	ctx, cancel := context.WithTimeout(context.Background(), 60*time.Second)
	defer cancel()
	var sb strings.Builder
	guid, err := t.GetSystemGUID(ctx)
	fmt.Fprintf(&sb, "guid=%x err=%v;", guid, err)
	opts := c.Opts()
	if discover {
		opts.CipherSuites = nil // default preference list: forces cipher suite discovery
	}
	sess, err := t.NewV2Session(ctx, opts)
	if err != nil {
		r.err = fmt.Errorf("session: %w", err)
		return
	}
	fmt.Fprintf(&sb, "session algs=%v/%v/%v;", sess.AuthenticationAlgorithm, sess.IntegrityAlgorithm, sess.ConfidentialityAlgorithm)
	ops := 8 + p.intn(12)
	// one command of every workload is answered with a completion code drawn from
	// the whole byte (rare, command-specific and OEM codes included)
	rare := byte(1 + p.intn(255))
	if rare == 0xC0 || rare == 0xC3 {
		rare = 0xC9
	}
	rareAt := 2 + p.intn(ops-2)
	// one workload in eight has one command answered "node busy" first: over UDP
	// the library then sleeps in its real back-off (0.25-0.75 s) before it sends
	// again, while the other connections carry on
	busyAt := -1
	if (seed>>20)%8 == 0 {
		busyAt = 2 + p.intn(ops-2)
		if busyAt == rareAt {
			busyAt = -1
		}
	}
	for i := 0; i < ops; i++ {
		op := p.intn(7)
		if i == busyAt {
			if srv != nil {
				srv.Lock()
			}
			once := true
			b.Intercept = func(b *simbmc.BMC, rx *simbmc.Rx) {
				if once && rx.Msg != nil && !rx.Msg.IsResponse() && rx.Sess != nil && len(rx.Replies) == 1 {
					once = false
					rx.Replies = []memnet.Out{b.Wrap(rx.Sess, b.ResponseFor(rx.Msg, 0xC0, nil).Bytes())}
				}
			}
			if srv != nil {
				srv.Unlock()
				ev.Label("udp-workload-with-back-off-sleep")
			}
			d, err := sess.GetDeviceID(ctx)
			fmt.Fprintf(&sb, "deviceid-after-busy=%v err=%v;", d != nil && d.Product == b.Data.DeviceID.Product, err)
			if srv != nil {
				srv.Lock()
			}
			b.Intercept = nil
			if srv != nil {
				srv.Unlock()
			}
			continue
		}
		if i == rareAt {
			if srv != nil {
				srv.Lock()
			}
			b.Intercept = func(b *simbmc.BMC, rx *simbmc.Rx) {
				if rx.Msg != nil && !rx.Msg.IsResponse() && rx.Sess != nil && len(rx.Replies) == 1 {
					rx.Replies = []memnet.Out{b.Wrap(rx.Sess, b.ResponseFor(rx.Msg, rare, nil).Bytes())}
				}
			}
			if srv != nil {
				srv.Unlock()
			}
			_, err := sess.GetChassisStatus(ctx)
			fmt.Fprintf(&sb, "chassis-with-code-%#x err=%v;", rare, err)
			if srv != nil {
				srv.Lock()
			}
			b.Intercept = nil
			if srv != nil {
				srv.Unlock()
			}
			continue
		}
		if i == 0 || i == ops/2 {
			op = 2 // every workload walks the repository at least twice
		} else if i == 1 {
			op = 3
		}
		switch op {
		case 0:
			d, err := sess.GetDeviceID(ctx)
			fmt.Fprintf(&sb, "deviceid=%v err=%v;", d != nil && d.Product == b.Data.DeviceID.Product, err)
		case 1:
			st, err := sess.GetChassisStatus(ctx)
			fmt.Fprintf(&sb, "chassis=%v err=%v;", st != nil && st.PoweredOn, err)
		case 2:
			repo, err := bmc.RetrieveSDRRepository(ctx, sess)
			ids := []string{}
			for id, f := range repo {
				ids = append(ids, fmt.Sprintf("%d:%q:%d", id, f.Identity, f.M))
			}
			sortStrings(ids)
			fmt.Fprintf(&sb, "sdr=%v err=%v;", ids, err)
		case 3:
			info, err := dcmi.GetSensorInfo(ctx, sess)
			if info != nil {
				fmt.Fprintf(&sb, "dcmi=%v/%v/%v err=%v;", info.Inlet, info.CPU, info.Baseboard, err)
			} else {
				fmt.Fprintf(&sb, "dcmi=nil err=%v;", err)
			}
		case 4:
			g, err := sess.GetSystemGUID(ctx)
			fmt.Fprintf(&sb, "guid=%x err=%v;", g, err)
		case 5:
			caps, err := sess.GetChannelAuthenticationCapabilities(ctx, &ipmi.GetChannelAuthenticationCapabilitiesReq{ExtendedData: true, Channel: ipmi.ChannelPresentInterface, MaxPrivilegeLevel: ipmi.PrivilegeLevelUser})
			fmt.Fprintf(&sb, "caps=%v err=%v;", caps != nil && caps.SupportsV2, err)
		case 6:
			lvl, err := sess.SetSessionPrivilegeLevel(ctx, ipmi.PrivilegeLevelUser)
			fmt.Fprintf(&sb, "priv=%v err=%v;", lvl, err)
		}
		runtime.Gosched()
	}
	fmt.Fprintf(&sb, "close=%v;", sess.Close(ctx))
	r.end = time.Now()
	if srv != nil {
		srv.Lock()
		defer srv.Unlock()
	}
	r.summary, r.log = sb.String(), normalise(b)
	return
}

func sortStrings(s []string) {
	for i := 1; i < len(s); i++ {
		for j := i; j > 0 && s[j] < s[j-1]; j-- {
			s[j], s[j-1] = s[j-1], s[j]
		}
	}
}

// slowNeighbour keeps one more connection busy for as long as stop is open: its
// BMC answers every request correctly but only after 3 s (longer than the other
// connections' per-attempt timeout), so the goroutine using it sits in a blocking
// receive nearly all the time. The other connections must not notice.
func slowNeighbour(stop <-chan struct{}) error {
	b := simbmc.New(1)
	srv, err := udpnet.Listen(b)
	if err != nil {
		return err
	}
	srv.Arm(func(rx *simbmc.Rx) []udpnet.Reply {
		var out []udpnet.Reply
		for _, o := range rx.Replies {
			out = append(out, udpnet.Reply{Data: o.Data, After: 3 * time.Second})
		}
		return out
	})
	t, err := bmc.DialV2(srv.Addr(), bmc.WithTimeout(10*time.Second))
	if err != nil {
		srv.Close()
		return err
	}
	go func() {
		defer srv.Close()
		defer t.Close()
		for {
			select {
			case <-stop:
				return
			default:
			}
			ctx, cancel := context.WithTimeout(context.Background(), 10*time.Second)
			t.GetSystemGUID(ctx)
			cancel()
		}
	}()
	return nil
}

// quirkyNeighbour uses one more connection, to a BMC with habits of its own that
// are all within the specification: it can return at most 16 SDR bytes per
// response (longer reads get 0xCA), answers the first request of every command
// with node busy and numbers its RMCP and session-less headers. Whatever the
// library makes of that BMC, the other connections must not notice.
func quirkyNeighbour() error {
	c := hx.Creds{User: "quirky", Password: []byte("pw"), Priv: 4, Suite: hx.Suites9()[2], Seed: 99}
	w := hx.NewWorldFor(c, true)
	b := w.BMC
	for i := 0; i < 5; i++ {
		f := ref.FSR{Number: byte(i), M: 1, ID: ref.IDString{Enc: ref.Enc8Bit, Codes: []byte("narrow buffer")}}
		b.Data.Repo.Records = append(b.Data.Repo.Records, simbmc.Record{ID: uint16(i + 1), Bytes: f.Record(uint16(i + 1))})
	}
	b.Data.Repo.MaxRead = 16
	b.RMCPSeq, b.NumberPlain = 0x2a, true
	sess, err := w.T.NewV2Session(context.Background(), c.Opts())
	if err != nil {
		return err
	}
	seen := map[string]bool{}
	b.Intercept = func(b *simbmc.BMC, rx *simbmc.Rx) {
		if rx.Msg == nil || rx.Msg.IsResponse() {
			return
		}
		k := fmt.Sprintf("%x/%x/%x", rx.Msg.NetFn, rx.Msg.Cmd, rx.Msg.Data)
		if !seen[k] {
			seen[k] = true
			rx.Replies = []memnet.Out{b.Wrap(rx.Sess, b.ResponseFor(rx.Msg, 0xC0, nil).Bytes())}
		}
	}
	ctx, cancel := context.WithTimeout(context.Background(), 150*time.Millisecond)
	defer cancel()
	sess.GetDeviceID(ctx)
	bmc.RetrieveSDRRepository(ctx, sess) // fails or not: the neighbour's own business
	dcmi.GetSensorInfo(ctx, sess)
	sess.Close(context.Background())
	return nil
}

// noisyNeighbour keeps one more connection busy for as long as stop is open: its
// BMC answers every request with a datagram cut short somewhere (inside the
// session header, the payload, the message), so its goroutine retries flat out
// and every layer's "truncated" path runs all the time. The other connections
// must not notice.
func noisyNeighbour(stop <-chan struct{}) {
	w := hx.NewWorld(7, false)
	cut := 0
	w.BMC.Intercept = func(b *simbmc.BMC, rx *simbmc.Rx) {
		for i := range rx.Replies {
			d := rx.Replies[i].Data
			cut++
			if n := []int{2, 6, 10, 15, 18, 21}[cut%6]; n < len(d) {
				rx.Replies[i].Data = append([]byte(nil), d[:n]...)
			}
		}
	}
	go func() {
		for {
			select {
			case <-stop:
				return
			default:
			}
			ctx, cancel := w.Ctx(40)
			w.T.GetSystemGUID(ctx)
			cancel()
			ctx, cancel = w.Ctx(40)
			w.T.SendCommand(ctx, &ipmi.GetChannelAuthenticationCapabilitiesCmd{})
			cancel()
			runtime.Gosched()
		}
	}()
}

func TestConcurrent(t *testing.T) {
	ns := []int{8}
	procs := []int{4}
	reps := 12
	if ev.Thorough() {
		ns, procs, reps = []int{2, 4, 8, 16}, []int{2, 4, 16}, 25
	}
	defer runtime.GOMAXPROCS(runtime.GOMAXPROCS(0))
	base := uint64(ev.Seed)*1_000_003 + 17
	for _, n := range ns {
		for _, gp := range procs {
			runtime.GOMAXPROCS(gp)
			for rep := 0; rep < reps; rep++ {
				seeds := make([]uint64, n)
				for i := range seeds {
					base = base*6364136223846793005 + 1442695040888963407
					seeds[i] = base
				}
				if rep%4 == 2 {
					seeds[0] &^= 7 << 20 // worker 0 (UDP) gets the busy-then-back-off step
				}
				alone := make([]result, n)
				together := make([]result, n)
				runAlone := func() bool {
					// reference: each workload alone
					for i, s := range seeds {
						alone[i] = workload(s, i%2 == 0)
						if alone[i].err != nil {
							// against a conforming BMC a workload run on its own always
							// succeeds; one retry rules out a lost loopback datagram
							alone[i] = workload(s, i%2 == 0)
						}
						if alone[i].err != nil {
							msg := fmt.Sprintf("workload %d (seed %d) fails even when run on its own, after other connections were used in this process: %v (state shared between connections)", i, s, alone[i].err)
							ev.Violation("TestConcurrent", map[string]any{"n": n, "gomaxprocs": gp, "seeds": seeds, "worker": i}, msg)
							t.Errorf("%s", msg)
							return false
						}
					}
					return true
				}
				runTogether := func() {
					// concurrently
					var wg sync.WaitGroup
					var started int32
					gate := make(chan struct{})
					// every third repetition a further connection, to a BMC that takes 3 s
					// to answer, is in use at the same time
					stopNeighbour := make(chan struct{})
					if rep%3 == 1 {
						if err := slowNeighbour(stopNeighbour); err != nil {
							t.Fatalf("harness: %v", err)
						}
						time.Sleep(20 * time.Millisecond) // let it reach its first receive
						ev.Label("slow-neighbour-connection")
					}
					stopNoise := make(chan struct{})
					defer close(stopNoise)
					if rep%3 == 0 {
						noisyNeighbour(stopNoise)
						ev.Label("noisy-neighbour-connection")
					}
					for i := range seeds {
						wg.Add(1)
						go func(i int) {
							defer wg.Done()
							atomic.AddInt32(&started, 1)
							<-gate
							together[i] = workload(seeds[i], i%2 == 0)
						}(i)
					}
					for atomic.LoadInt32(&started) < int32(n) {
						runtime.Gosched()
					}
					close(gate)
					wg.Wait()
					close(stopNeighbour)
				}
				// the order alternates: state that a connection leaves behind in the
				// package (caches filled on first use) must not matter either way
				if rep%2 == 0 {
					runTogether()
					if !runAlone() {
						t.FailNow()
					}
					ev.Label("order:together-first")
				} else {
					if !runAlone() {
						t.FailNow()
					}
					if rep == 1 {
						// between the two phases a connection to a BMC with unusual
						// (legitimate) habits is used in this process
						if err := quirkyNeighbour(); err != nil {
							t.Fatalf("harness: %v", err)
						}
						ev.Label("quirky-neighbour-connection")
					}
					runTogether()
				}
				ev.Eval()
				overlap := 0
				for i := range together {
					if together[i].err != nil {
						ev.Violation("TestConcurrent", map[string]any{"n": n, "gomaxprocs": gp, "seeds": seeds}, "workload failed when run concurrently: "+together[i].err.Error())
						t.Fatalf("workload %d failed when run concurrently: %v", i, together[i].err)
					}
					if together[i].summary != alone[i].summary || together[i].log != alone[i].log {
						msg := fmt.Sprintf("workload %d (seed %d, N=%d, GOMAXPROCS=%d) behaves differently when run concurrently with others:\n alone:    %s\n together: %s\n BMC log alone:    %s\n BMC log together: %s",
							i, seeds[i], n, gp, alone[i].summary, together[i].summary, alone[i].log, together[i].log)
						ev.Violation("TestConcurrent", map[string]any{"n": n, "gomaxprocs": gp, "seeds": seeds, "worker": i}, msg)
						t.Fatalf("%s", msg)
					}
					for j := range together {
						if j != i && together[i].start.Before(together[j].end) && together[j].start.Before(together[i].end) {
							overlap++
							break
						}
					}
				}
				if overlap >= 2 {
					ev.NonTrivial(fmt.Sprintf("%d|%d|%v", n, gp, seeds))
					ev.Label(fmt.Sprintf("overlapped:N=%d:GOMAXPROCS=%d", n, gp))
				}
				if rep == 0 {
					ev.Sample(map[string]any{"N": n, "GOMAXPROCS": gp, "seeds": seeds, "overlapping workloads": overlap, "example result": together[0].summary})
				}
			}
		}
	}
	ev.Label("concurrent-complete")
}

func TestCoverage(t *testing.T) {
	ev.RequireLabels(t, 2, "overlapped:N=8:GOMAXPROCS=4")
	ev.RequireLabels(t, 1, "concurrent-complete", "order:together-first", "slow-neighbour-connection", "quirky-neighbour-connection", "noisy-neighbour-connection", "udp-workload-with-back-off-sleep")
}
