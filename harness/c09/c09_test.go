// C09: session sequence numbers strictly increase and are never reused.
package c09

import (
	"context"
	"fmt"
	"sync"
	"testing"
	"time"

	"github.com/gebn/bmc"
	"github.com/gebn/bmc/pkg/ipmi"
	"pgregory.net/rapid"

	"verif/harness/evid"
	"verif/harness/hx"
	"verif/harness/ref"
	"verif/harness/simbmc"
	"verif/harness/udpnet"
)

var ev *evid.E

func TestMain(m *testing.M) {
	ev = evid.New("C09", "fault_enumeration",
		"one session per history; each command has a per-attempt outcome script over {valid final reply, 0xC0, 0xC3, garbage, bad signature, lost}; exhaustive: all scripts up to the "+
			"stated depth for one command and for two consecutive commands; random: rapid state machine with up to 60 in-session commands interleaved with session-less commands on the "+
			"same transport (before, between and after). Invariant over the BMC's datagram log after every step: the session's sequence fields in arrival order are exactly 1,2,3,...; "+
			"datagrams outside a session carry session ID 0 and sequence 0; no datagram is addressed to any other session ID. Non-trivial = at least one retransmission in the history; "+
			"distinct by the history's scripts")
	ev.Assume("commands whose serialisation fails (Set Session Privilege Level = Callback) are excluded: the property's outcome alphabet has no such letter",
		"32-bit wrap-around is not reached")
	evid.Main(m, ev)
}

// invariant checks the whole BMC log: per BMC session the sequence fields in
// arrival order are 1,2,3,...; session-less datagrams carry 0/0; nothing is
// addressed to an unknown session.
func invariant(b *simbmc.BMC, sessions ...*simbmc.Session) error {
	next := map[uint32]uint32{}
	known := map[uint32]bool{}
	for _, s := range sessions {
		if s != nil {
			known[s.ID] = true
			next[s.ID] = 1
		}
	}
	for _, rx := range b.Log {
		if rx.Pkt == nil {
			return fmt.Errorf("datagram %d does not parse as RMCP+: %v (% x)", rx.N, rx.PktErr, rx.Raw)
		}
		id := rx.Pkt.SessionID
		switch {
		case id == 0:
			if rx.Pkt.Seq != 0 {
				return fmt.Errorf("datagram %d outside a session carries sequence number %d", rx.N, rx.Pkt.Seq)
			}
		case known[id]:
			if rx.Pkt.Seq != next[id] {
				return fmt.Errorf("datagram %d is the %d-th of session %#x but carries sequence number %d", rx.N, next[id], id, rx.Pkt.Seq)
			}
			next[id]++
		default:
			return fmt.Errorf("datagram %d addressed to session ID %#x, which is neither 0 nor one of the BMC's sessions", rx.N, id)
		}
	}
	return nil
}

type history struct {
	w     *hx.World
	sess  *bmc.V2Session
	bs    *simbmc.Session
	sess2 *bmc.V2Session
	bs2   *simbmc.Session
	sc   *hx.Scripter
	desc []string
	retx int
	// old are sessions that were closed (their numbering is still checked)
	old   []*simbmc.Session
	creds hx.Creds
	// endInLastAttempt makes the context end while the last scripted attempt is
	// in flight (its reply is still delivered, then the library finds the
	// context done between attempts) instead of inside one further transmission
	endInLastAttempt bool
}

func (h *history) budget(script []hx.Outcome) int {
	if h.endInLastAttempt && len(script) > 0 {
		return len(script)
	}
	return len(script) + 1
}

// all returns every BMC-side session of the history.
func (h *history) all() []*simbmc.Session {
	return append([]*simbmc.Session{h.bs, h.bs2}, h.old...)
}

// reopen closes the first session cleanly and opens a new one on the same
// connection, which takes its place; the new session numbers from 1 again.
func (h *history) reopen() error {
	h.w.BMC.Intercept = nil
	ctx, cancel := h.w.Ctx(3)
	err := h.sess.Close(ctx)
	cancel()
	if err != nil {
		return fmt.Errorf("close: %w", err)
	}
	h.old = append(h.old, h.bs)
	s, err := h.w.T.NewV2Session(context.Background(), h.creds.Opts())
	h.sc.Install(h.w.BMC)
	if err != nil {
		return fmt.Errorf("open after close: %w", err)
	}
	h.sess, h.bs = s, h.w.BMC.Sessions[s.RemoteID]
	h.desc = append(h.desc, "close first session, open a new one")
	return nil
}

func newHistory(suite ref.Suite, seed uint64) (*history, error) {
	c := hx.Creds{User: "op", Password: []byte("secret"), Priv: 3, Suite: suite, Seed: seed}
	w := hx.NewWorldFor(c, true)
	h := &history{w: w, sc: &hx.Scripter{}, creds: c}
	if suite.Integ == ref.IntegNone {
		ev.Label("session-with-integrity-none")
	}
	// a session-less command before the session exists
	if _, err := w.T.SendCommand(context.Background(), &ipmi.GetSystemGUIDCmd{}); err != nil {
		return nil, err
	}
	s, err := w.T.NewV2Session(context.Background(), c.Opts())
	if err != nil {
		return nil, err
	}
	h.sess, h.bs = s, w.BMC.ActiveSession()
	h.sc.Install(w.BMC)
	return h, nil
}

// second opens another session over the same connection.
func (h *history) second() error {
	h.w.BMC.Intercept = nil
	c := hx.Creds{User: "op", Password: []byte("secret"), Priv: 4, Suite: hx.Suites12()[int(h.bs.ID)%12]}
	s, err := h.w.T.NewV2Session(context.Background(), c.Opts())
	h.sc.Install(h.w.BMC)
	if err != nil {
		return err
	}
	h.sess2, h.bs2 = s, h.w.BMC.Sessions[s.RemoteID]
	h.desc = append(h.desc, "open second session")
	return nil
}

// commandOn runs a scripted command on the given session.
func (h *history) commandOn(s *bmc.V2Session, cmd ipmi.Command, script []hx.Outcome) {
	h.sc.Script, h.sc.Pos = script, 0
	start := h.w.Net.Sends
	ctx, cancel := h.w.Ctx(h.budget(script))
	s.SendCommand(ctx, cmd)
	cancel()
	if n := h.w.Net.Sends - start; n > 1 {
		h.retx += n - 1
	}
	h.desc = append(h.desc, fmt.Sprintf("session %#x:%s:%s", s.RemoteID, cmd.Name(), hx.ScriptString(script)))
}

// command runs one scripted command, inside or outside the session.
func (h *history) command(inSession bool, cmd ipmi.Command, script []hx.Outcome) {
	h.sc.Script, h.sc.Pos = script, 0
	start := h.w.Net.Sends
	ctx, cancel := h.w.Ctx(h.budget(script))
	if inSession {
		h.sess.SendCommand(ctx, cmd)
	} else {
		h.w.T.SendCommand(ctx, cmd)
	}
	cancel()
	n := h.w.Net.Sends - start
	if n > 1 {
		h.retx += n - 1
	}
	h.desc = append(h.desc, fmt.Sprintf("%v:%s:%s", inSession, cmd.Name(), hx.ScriptString(script)))
}

var alphabet = []hx.Outcome{hx.Final, hx.Busy, hx.TimeoutCC, hx.Garbage, hx.BadSig, hx.Lost}

// randAlphabet adds well-formed replies to other commands (retried past).
var randAlphabet = append(append([]hx.Outcome(nil), alphabet...), hx.StrayOK, hx.StrayBusy, hx.StraySetup, hx.StrayASF)

func pickCmd(i int) ipmi.Command {
	switch i % 4 {
	case 0:
		return &ipmi.GetDeviceIDCmd{}
	case 1:
		return &ipmi.ChassisControlCmd{Req: ipmi.ChassisControlReq{ChassisControl: ipmi.ChassisControlPowerOn}}
	case 2:
		return &ipmi.GetSDRCmd{Req: ipmi.GetSDRReq{RecordID: 7, Length: 5}}
	}
	return &ipmi.GetChannelAuthenticationCapabilitiesCmd{}
}

func TestEnumerated(t *testing.T) {
	d1, d2 := ev.Pick(4, 5), ev.Pick(2, 3)
	suites := hx.Suites12()
	n := 0
	run := func(scripts [][]hx.Outcome) {
		n++
		h, err := newHistory(suites[(n+int(ev.Seed))%len(suites)], uint64(ev.Seed)*104729+uint64(n))
		if err != nil {
			t.Fatalf("harness: %v", err)
		}
		h.endInLastAttempt = n%2 == 0
		for i, sc := range scripts {
			h.command(true, pickCmd(n+i), sc)
			if i == 0 && len(scripts) > 1 {
				h.command(false, &ipmi.GetSystemGUIDCmd{}, []hx.Outcome{hx.Busy, hx.Final})
				if n%3 == 0 {
					// the rest of the history runs on a new session opened after the
					// first one was closed
					if err := h.reopen(); err != nil {
						t.Fatalf("history %v: %v", h.desc, err)
					}
				}
			}
		}
		h.command(false, &ipmi.GetChannelAuthenticationCapabilitiesCmd{}, []hx.Outcome{hx.Final})
		ev.Eval()
		if err := invariant(h.w.BMC, h.all()...); err != nil {
			ev.Violation("TestEnumerated", map[string]any{"history": h.desc}, err.Error())
			t.Fatalf("history %v: %v", h.desc, err)
		}
		if h.retx > 0 {
			ev.NonTrivial(fmt.Sprint(h.desc))
			ev.Label("history-with-retransmission")
		}
		ev.Sample(map[string]any{"history": h.desc, "session datagrams": len(h.bs.InSeqs), "retransmissions": h.retx})
	}
	for l := 1; l <= d1; l++ {
		for _, sc := range hx.EnumScripts(alphabet, l) {
			run([][]hx.Outcome{sc})
		}
	}
	for l1 := 1; l1 <= d2; l1++ {
		for l2 := 1; l2 <= d2; l2++ {
			for _, a := range hx.EnumScripts(alphabet, l1) {
				for _, b := range hx.EnumScripts(alphabet, l2) {
					run([][]hx.Outcome{a, b})
				}
			}
		}
	}
	// runs of unanswered transmissions around the width of the BMC's sequence
	// window (16), in one command and spread over several
	for _, l := range []int{15, 16, 17, 31, 32, 33, 48} {
		for _, o := range []hx.Outcome{hx.Garbage, hx.BadSig} {
			one := make([]hx.Outcome, l, l+1)
			for i := range one {
				one[i] = o
			}
			run([][]hx.Outcome{append(one, hx.Final), {hx.Final}})
			third := one[:l/3+1]
			run([][]hx.Outcome{third, third, third, {hx.Busy, hx.Final}})
		}
	}
	ev.Label("enumeration-complete")
}

func TestStateMachine(t *testing.T) {
	cat := hx.Catalogue()
	ev.Check(t, "TestStateMachine", ev.PickN(400, 100000), func(t *rapid.T) {
		h, err := newHistory(rapid.SampledFrom(hx.Suites12()).Draw(t, "suite"), rapid.Uint64().Draw(t, "seed"))
		if err != nil {
			t.Fatalf("harness: %v", err)
		}
		genScript := func() []hx.Outcome {
			n := rapid.IntRange(1, 6).Draw(t, "attempts")
			sc := make([]hx.Outcome, n)
			for i := range sc {
				sc[i] = rapid.SampledFrom(randAlphabet).Draw(t, "outcome")
			}
			return sc
		}
		steps, strays, numbered, longRuns, reopens, failedCloses := 0, 0, false, 0, 0, 0
		t.Repeat(map[string]func(*rapid.T){
			"sessionCommand": func(t *rapid.T) {
				if steps >= 60 {
					t.Skip("history long enough")
				}
				steps++
				h.endInLastAttempt = rapid.Bool().Draw(t, "contextEndsInLastAttempt")
				call := rapid.SampledFrom(cat).Draw(t, "command").Prepare(t, h.w.BMC)
				h.sc.Install(h.w.BMC)
				h.command(true, call.Cmd, genScript())
			},
			"longUnansweredRun": func(t *rapid.T) {
				// 16 or more transmissions in a row without a valid matching reply (the
				// BMC's sequence window is 16 wide): numbering must simply go on
				if steps >= 60 || longRuns >= 2 {
					t.Skip("history long enough")
				}
				steps++
				n := rapid.IntRange(14, 40).Draw(t, "unanswered")
				sc := make([]hx.Outcome, n, n+1)
				for i := range sc {
					sc[i] = rapid.SampledFrom([]hx.Outcome{hx.Garbage, hx.BadSig, hx.StrayOK, hx.Garbage}).Draw(t, "outcome")
				}
				if rapid.Bool().Draw(t, "answeredInTheEnd") {
					sc = append(sc, hx.Final)
				}
				h.sc.Install(h.w.BMC)
				s := h.sess
				if h.sess2 != nil && rapid.Bool().Draw(t, "second") {
					s = h.sess2
				}
				h.commandOn(s, pickCmd(rapid.IntRange(0, 3).Draw(t, "cmd")), sc)
				if n >= 16 {
					longRuns++
				}
			},
			"closeAndOpenAgain": func(t *rapid.T) {
				if reopens >= 3 {
					t.Skip("enough")
				}
				if err := h.reopen(); err != nil {
					t.Fatalf("history %v: %v; BMC: %v", h.desc, err, h.w.BMC.AllProblems())
				}
				reopens++
			},
			"closeThatDoesNotGoThrough": func(t *rapid.T) {
				// Close on a session whose BMC refuses (or never answers) the Close
				// Session command: the session stays open on the BMC, and whatever is
				// sent on it afterwards continues the numbering
				if failedCloses >= 3 || steps >= 60 {
					t.Skip("enough")
				}
				failedCloses++
				steps++
				s := h.sess
				if h.sess2 != nil && rapid.Bool().Draw(t, "second") {
					s = h.sess2
				}
				k := uint16(ref.NetFnApp)<<8 | uint16(ref.CmdCloseSession)
				orig := h.w.BMC.Handlers[k]
				h.w.BMC.Handlers[k] = func(b *simbmc.BMC, rx *simbmc.Rx) (byte, []byte) { return 0xD4, nil }
				script := rapid.SampledFrom([][]hx.Outcome{{hx.Final}, {hx.Lost}, {hx.Garbage, hx.Lost}, {hx.Busy, hx.Final}, {hx.BadSig, hx.Final}}).Draw(t, "closeAnswered")
				h.sc.Install(h.w.BMC)
				h.sc.Script, h.sc.Pos = script, 0
				ctx, cancel := h.w.Ctx(h.budget(script))
				err := s.Close(ctx)
				cancel()
				h.w.BMC.Handlers[k] = orig
				h.desc = append(h.desc, fmt.Sprintf("session %#x:Close refused/unanswered:%s err=%v", s.RemoteID, hx.ScriptString(script), err != nil))
				ev.Label("close-that-did-not-go-through")
			},
			"openSecondSession": func(t *rapid.T) {
				if h.sess2 != nil {
					t.Skip("already open")
				}
				if err := h.second(); err != nil {
					t.Fatalf("second session: %v", err)
				}
			},
			"secondSessionCommand": func(t *rapid.T) {
				if h.sess2 == nil || steps >= 60 {
					t.Skip("no second session")
				}
				steps++
				call := rapid.SampledFrom(cat).Draw(t, "command").Prepare(t, h.w.BMC)
				h.sc.Install(h.w.BMC)
				h.commandOn(h.sess2, call.Cmd, genScript())
			},
			"sessionlessCommand": func(t *rapid.T) {
				cmd := pickCmd(rapid.IntRange(0, 3).Draw(t, "cmd"))
				h.command(false, cmd, genScript())
			},
			"bmcNumbersSessionlessPackets": func(t *rapid.T) {
				h.w.BMC.NumberPlain = rapid.Bool().Draw(t, "on")
				if h.w.BMC.NumberPlain {
					numbered = true
				}
				h.w.BMC.RMCPSeq = byte(rapid.SampledFrom([]int{0, 0, 0x2a, 0xfe, 0x01}).Draw(t, "rmcpSequence"))
			},
			"strayInSessionReplyThenSessionless": func(t *rapid.T) {
				// a delayed duplicate of an in-session reply is waiting in the socket
				// when a session-less command is made
				s := h.bs
				if h.bs2 != nil && rapid.Bool().Draw(t, "second") {
					s = h.bs2
				}
				msg := &ref.Msg{RsAddr: ref.ConsoleSWID, NetFn: ref.NetFnApp | 1, RqAddr: ref.BMCAddr, RqSeq: byte(rapid.IntRange(0, 63).Draw(t, "rqseq")), Cmd: ref.CmdGetDeviceID, CC: 0}
				h.w.Net.Inject(h.w.BMC.SessionPacket(s, msg.Bytes()))
				h.desc = append(h.desc, "stray in-session reply queued")
				h.command(false, pickCmd(rapid.IntRange(0, 3).Draw(t, "cmd")), genScript())
				h.command(false, pickCmd(rapid.IntRange(0, 3).Draw(t, "cmd2")), genScript())
				// what is still queued would shift every later exchange by one; the
				// history continues from a quiet socket
				h.w.Net.Drain()
				strays++
			},
			"": func(t *rapid.T) {
				if err := invariant(h.w.BMC, h.all()...); err != nil {
					t.Fatalf("history %v: %v", h.desc, err)
				}
			},
		})
		if h.sess2 != nil {
			ev.Label("two-sessions-interleaved")
		}
		if strays > 0 {
			ev.Label("stray-in-session-reply-during-sessionless-command")
		}
		if longRuns > 0 {
			ev.Label("unanswered-run>=16")
		}
		if reopens > 0 {
			ev.Label("session-closed-and-another-opened")
		}
		if numbered {
			ev.Label("bmc-numbers-sessionless-packets")
		}
		ev.Eval()
		if h.retx > 0 {
			ev.NonTrivial(fmt.Sprint(h.desc))
			ev.Label("history-with-retransmission")
		}
		ev.Label(fmt.Sprintf("session-datagrams>=%d", min(len(h.bs.InSeqs)/10*10, 50)))
		ev.Sample(map[string]any{"history": h.desc, "session datagrams": len(h.bs.InSeqs), "retransmissions": h.retx})
	})
}

// TestUDPHistories: sessions over the real UDP transport (no hook): some in-session
// replies are runts (0..3 bytes), short garbage, v1.5-shaped garbage or node busy,
// so the library sends again under its own back-off. The numbering invariant is
// checked on everything each BMC received.
func TestUDPHistories(t *testing.T) {
	conns, commands := ev.Pick(6, 16), ev.Pick(6, 14)
	var wg sync.WaitGroup
	var mu sync.Mutex
	var firstMsg string
	for i := 0; i < conns; i++ {
		i := i
		wg.Add(1)
		go func() {
			defer wg.Done()
			msg, faults := func() (string, int) {
				cr := hx.Creds{User: "admin", Password: []byte("pw"), Priv: 4, Suite: hx.Suites12()[(i+int(ev.Seed))%12], Seed: uint64(ev.Seed)*23 + uint64(i)}
				b := simbmc.New(cr.Seed)
				cr.Install(b)
				srv, err := udpnet.Listen(b)
				if err != nil {
					return "", 0
				}
				defer srv.Close()
				tr, err := bmc.DialV2(srv.Addr(), bmc.WithTimeout(150*time.Millisecond))
				if err != nil {
					return "", 0
				}
				defer tr.Close()
				ctx, cancel := context.WithTimeout(context.Background(), 30*time.Second)
				defer cancel()
				sess, err := tr.NewV2Session(ctx, cr.Opts())
				if err != nil {
					return "", 0
				}
				faults, budget := 0, 4
				srv.Arm(func(rx *simbmc.Rx) []udpnet.Reply {
					var out []udpnet.Reply
					for _, o := range rx.Replies {
						out = append(out, udpnet.Reply{Data: o.Data})
					}
					if rx.Pkt == nil || rx.Pkt.SessionID == 0 || rx.Msg == nil || faults >= budget {
						return out
					}
					switch b.Rand.Intn(8) {
					case 0:
						faults++
						return []udpnet.Reply{{Data: b.Rand.Bytes(b.Rand.Intn(4))}} // a runt (possibly empty)
					case 1:
						faults++
						return []udpnet.Reply{{Data: append([]byte{0x06, 0x00, 0xff, 0x07}, b.Rand.Bytes(1+b.Rand.Intn(8))...)}}
					case 2:
						faults++
						return []udpnet.Reply{{Data: b.Wrap(rx.Sess, b.ResponseFor(rx.Msg, 0xC0, nil).Bytes()).Data}}
					}
					return out
				})
				for k := 0; k < commands; k++ {
					if k%3 == 2 {
						tr.GetSystemGUID(ctx) // session-less traffic in between
					} else {
						sess.GetDeviceID(ctx)
					}
				}
				time.Sleep(20 * time.Millisecond)
				srv.Lock()
				defer srv.Unlock()
				if err := invariant(b, b.Sessions[sess.RemoteID]); err != nil {
					return fmt.Sprintf("UDP history (suite %v, %d faulted replies): %v", cr.Suite, faults, err), faults
				}
				return "", faults
			}()
			mu.Lock()
			defer mu.Unlock()
			ev.Eval()
			if faults > 0 {
				ev.NonTrivial(fmt.Sprintf("udp-history|%d|%d", i, faults))
				ev.Label("udp-history-with-retransmission")
			}
			if msg != "" && firstMsg == "" {
				firstMsg = msg
				ev.Violation("TestUDPHistories", map[string]any{"connection": i}, msg)
			}
		}()
	}
	wg.Wait()
	if firstMsg != "" {
		t.Fatalf("%s", firstMsg)
	}
}

func TestCoverage(t *testing.T) {
	ev.RequireLabels(t, 1, "enumeration-complete", "close-that-did-not-go-through", "udp-history-with-retransmission", "session-closed-and-another-opened", "unanswered-run>=16", "session-with-integrity-none", "history-with-retransmission", "two-sessions-interleaved", "stray-in-session-reply-during-sessionless-command", "bmc-numbers-sessionless-packets")
}

func min(a, b int) int {
	if a < b {
		return a
	}
	return b
}
