// C01: session establishment agrees on keys with every conforming BMC.
package c01

import (
	"bytes"
	"context"
	"fmt"
	"testing"

	"github.com/gebn/bmc"
	"github.com/gebn/bmc/pkg/ipmi"
	"pgregory.net/rapid"

	"verif/harness/evid"
	"verif/harness/hx"
	"verif/harness/ref"
	"verif/harness/simbmc"
)

var ev *evid.E

func TestMain(m *testing.M) {
	ev = evid.New("C01", "exploration",
		"generated (suite of 24, username 0..16 ASCII, password 0..20 bytes, KG absent/20 bytes, privilege 0..5, lookup mode, BMC randoms/GUID/session ID) "+
			"plus an enumerated cross product of suite x privilege x lookup x KG x boundary lengths; the real library opens a session against the simulated BMC "+
			"over the in-memory transport and then sends 1..5 catalogue commands. Non-trivial = handshake completed and >=1 in-session command verified by the BMC; "+
			"distinct by (suite, |user|, |password|, KG?, privilege, lookup, BMC seed)")
	ev.Assume("the simulated BMC (package simbmc over package ref) follows IPMI v2.0 13.17-13.32; spec PDFs are unavailable offline, tables are in DESIGN.md appendix A",
		"for integrity None a conforming BMC expects the authenticated flag clear and no AuthCode; for confidentiality None the encrypted flag clear",
		"user lookup ignores the privilege part of name+privilege lookup (one entry per name); the role byte still enters every hash")
	evid.Main(m, ev)
}

type sample struct {
	Suite       string
	User        string
	PasswordLen int
	KG          bool
	Priv        uint8
	Lookup      bool
	Outcome     string
	Commands    []string
	SIK         string
}

// runCase performs one handshake + commands and returns an error describing a
// violation. Commands are drawn from t when t != nil, otherwise a fixed pair.
func runCase(t *rapid.T, c hx.Creds) error {
	w := hx.NewWorldFor(c, true)
	ctx := context.Background()
	sess, err := w.T.NewV2Session(ctx, c.Opts())
	ev.Eval()
	sm := sample{Suite: c.Suite.String(), User: c.User, PasswordLen: len(c.Password), KG: c.KG != nil, Priv: c.Priv, Lookup: c.Lookup}
	defer func() { ev.Sample(sm) }()
	if err != nil {
		sm.Outcome = "refused: " + err.Error()
		if sess != nil {
			return fmt.Errorf("error %v returned together with a non-nil session", err)
		}
		if hx.MustSucceed(c.Suite) {
			return fmt.Errorf("suite %v must succeed, got error: %v (BMC problems: %v)", c.Suite, err, w.BMC.AllProblems())
		}
		ev.Label("none-suite-refused")
		ev.Label("suite:" + c.Suite.String() + ":refused")
		return nil
	}
	if sess == nil {
		return fmt.Errorf("nil session with nil error")
	}
	bs := w.BMC.ActiveSession()
	if bs == nil {
		return fmt.Errorf("library returned a session but the BMC has no active session; problems: %v", w.BMC.AllProblems())
	}
	if !bs.RAKP3OK {
		return fmt.Errorf("BMC did not accept the RAKP3 AuthCode")
	}
	if !bytes.Equal(sess.SIK, bs.SIK) {
		return fmt.Errorf("SIK: library %x, BMC %x", sess.SIK, bs.SIK)
	}
	// the keys are obtained the way a caller keeps them: K1, then K2, then the
	// session is printed; each value must (still) be the BMC's
	k1, k2 := sess.K(1), sess.K(2)
	_ = sess.String()
	if !bytes.Equal(k1, bs.K1) {
		return fmt.Errorf("K1: library %x, BMC %x", k1, bs.K1)
	}
	if !bytes.Equal(k2, bs.K2) {
		return fmt.Errorf("K2: library %x, BMC %x", k2, bs.K2)
	}
	if k := sess.K(1); !bytes.Equal(k, bs.K1) {
		return fmt.Errorf("K1 (asked for again): library %x, BMC %x", k, bs.K1)
	}
	if sess.LocalID != bs.ConsoleID || sess.RemoteID != bs.ID {
		return fmt.Errorf("session IDs: library local %#x remote %#x, BMC console %#x own %#x", sess.LocalID, sess.RemoteID, bs.ConsoleID, bs.ID)
	}
	if uint8(sess.AuthenticationAlgorithm) != c.Suite.Auth || uint8(sess.IntegrityAlgorithm) != c.Suite.Integ || uint8(sess.ConfidentialityAlgorithm) != c.Suite.Conf {
		return fmt.Errorf("session algorithms %v/%v/%v differ from the negotiated suite %v", sess.AuthenticationAlgorithm, sess.IntegrityAlgorithm, sess.ConfidentialityAlgorithm, c.Suite)
	}
	sm.SIK = fmt.Sprintf("%x", sess.SIK)
	// in-session commands
	cat := hx.Catalogue()
	n := 2
	if t != nil {
		n = rapid.IntRange(1, 5).Draw(t, "ncommands")
	}
	for i := 0; i < n; i++ {
		var call *hx.Call
		if t != nil && rapid.IntRange(0, 2).Draw(t, "callerDefinedCommand") == 0 {
			// a command of the caller's own with a request body of 0..200 bytes (Write
			// FRU Data carries chunks like that): the BMC must receive exactly it
			bl := int(rapid.Uint16().Draw(t, "bodyLen")) % 201
			body := rapid.SliceOfN(rapid.Byte(), bl, bl).Draw(t, "body")
			w.BMC.Fallback = func(b *simbmc.BMC, rx *simbmc.Rx) (byte, []byte) { return 0, []byte{byte(len(rx.Msg.Data))} }
			cmd, got := hx.RawCommand("Write FRU Data", ipmi.Operation{Function: ipmi.NetworkFunctionStorageReq, Command: 0x12}, 0, body)
			before := len(w.BMC.Log)
			code, err := sess.SendCommand(ctx, cmd)
			if err != nil || code != 0 {
				return fmt.Errorf("caller-defined command with a %d-byte body (command %d on the session) failed: code %#x err %v; BMC problems: %v", bl, i+1, uint8(code), err, w.BMC.AllProblems())
			}
			rx := w.BMC.Log[before]
			if len(w.BMC.Log) != before+1 || len(rx.Problems) > 0 || !rx.AuthOK || rx.Msg == nil || !bytes.Equal(rx.Msg.Data, body) {
				return fmt.Errorf("caller-defined command with a %d-byte body: the BMC received %x (problems %v), want %x", bl, rx.Msg, rx.Problems, body)
			}
			if r := got(); len(r) != 1 || r[0] != byte(bl) {
				return fmt.Errorf("caller-defined command with a %d-byte body: response %x", bl, r)
			}
			ev.Label(fmt.Sprintf("caller-defined-body:%d0s", bl/10))
			sm.Commands = append(sm.Commands, fmt.Sprintf("Write FRU Data (%d bytes)", bl))
			continue
		}
		if t != nil {
			e := rapid.SampledFrom(cat).Draw(t, "command")
			call = e.Prepare(t, w.BMC)
		} else {
			call = fixedCall(i, w)
		}
		before := len(w.BMC.Log)
		code, err := sess.SendCommand(ctx, call.Cmd)
		if err != nil {
			return fmt.Errorf("command %s on an established session failed: %v; BMC problems: %v", call.Name, err, w.BMC.AllProblems())
		}
		if len(w.BMC.Log) != before+1 {
			return fmt.Errorf("command %s: BMC received %d datagrams, want 1", call.Name, len(w.BMC.Log)-before)
		}
		rx := w.BMC.Log[before]
		if len(rx.Problems) > 0 || !rx.AuthOK || rx.Msg == nil {
			return fmt.Errorf("command %s: BMC rejected the datagram: %v", call.Name, rx.Problems)
		}
		wantCode := byte(0)
		if call.Name == "Close Session" {
			wantCode = 0x87
		}
		if byte(code) != wantCode {
			return fmt.Errorf("command %s: completion code %#x, BMC sent %#x", call.Name, byte(code), wantCode)
		}
		if err := call.Check(); err != nil {
			return fmt.Errorf("command %s: value returned differs from the BMC's: %v", call.Name, err)
		}
		sm.Commands = append(sm.Commands, call.Name)
	}
	if p := w.BMC.AllProblems(); len(p) > 0 {
		return fmt.Errorf("BMC logged conformance problems: %v", p)
	}
	sm.Outcome = "session"
	ev.Label("suite:" + c.Suite.String() + ":session")
	switch {
	case len(c.KG) > 0:
		ev.Label("kg")
	case c.KG != nil:
		ev.Label("no-kg:empty-non-nil-slice")
	default:
		ev.Label("no-kg")
	}
	ev.Label(fmt.Sprintf("ulen:%d", len(c.User)))
	ev.Label(fmt.Sprintf("plen:%d", len(c.Password)))
	if c.Packed != 0 && len(c.Password) < 20 && len(c.KG) > 0 {
		ev.Label("secrets:password-and-kg-in-one-buffer")
	}
	ev.NonTrivial(fmt.Sprintf("%v|%d|%d|%v|%d|%v|%d", c.Suite, len(c.User), len(c.Password), c.KG != nil, c.Priv, c.Lookup, c.Seed))
	_ = bmc.ErrIncorrectPassword
	return nil
}

// fixedCall gives deterministic commands for the enumerated part.
func fixedCall(i int, w *hx.World) *hx.Call {
	names := []string{"GetSystemGUID", "GetDeviceID"}
	var call *hx.Call
	// draw the entry's data from a tiny deterministic rapid run
	e := hx.CatalogueEntry(names[i%len(names)])
	call = drawFixed(e, w)
	return call
}

func drawFixed(e hx.Entry, w *hx.World) *hx.Call {
	var call *hx.Call
	g := rapid.Custom(func(t *rapid.T) int {
		call = e.Prepare(t, w.BMC)
		return 0
	})
	g.Example(int(w.BMC.Rand.Uint64() & 0xffff))
	return call
}

func TestRandom(t *testing.T) {
	ev.Check(t, "TestRandom", ev.PickN(2000, 400000), func(t *rapid.T) {
		// three quarters of the cases use the must-succeed suites, the rest the
		// suites with None (which may be refused)
		suites := hx.Suites9()
		if rapid.IntRange(0, 3).Draw(t, "noneClass") == 0 {
			suites = hx.Suites24()
		}
		c := hx.GenCreds(suites).Draw(t, "creds")
		if err := runCase(t, c); err != nil {
			t.Fatalf("%v", err)
		}
	})
}

func TestEnumerated(t *testing.T) {
	if testing.Short() {
		t.Skip()
	}
	ulens := []int{0, 1, 15, 16}
	plens := []int{0, 1, 16, 19, 20}
	seed := uint64(ev.Seed)*2654435761 + 12345
	n := 0
	for _, s := range hx.Suites24() {
		for priv := uint8(0); priv <= 5; priv++ {
			for _, lookup := range []bool{false, true} {
				for _, kg := range []bool{false, true} {
					for _, ul := range ulens {
						for _, pl := range plens {
							n++
							// thin the product in the quick tier deterministically
							if !ev.Thorough() && (n+int(ev.Seed))%2 != 0 {
								continue
							}
							seed = seed*6364136223846793005 + 1442695040888963407
							c := hx.Creds{Suite: s, Priv: priv, Lookup: lookup, Seed: seed}
							u := make([]byte, ul)
							for i := range u {
								u[i] = byte('a' + (int(seed>>8)+i)%26)
							}
							c.User = string(u)
							c.Password = make([]byte, pl)
							for i := range c.Password {
								c.Password[i] = byte(seed >> (uint(i) % 56))
							}
							if kg {
								c.KG = make([]byte, 20)
								for i := range c.KG {
									c.KG[i] = byte(seed>>(uint(i)%48)) ^ 0x5a
								}
							} else if seed>>40&1 == 1 {
								c.KG = []byte{} // absent, spelt as an empty slice
							}
							var err error
							func() {
								defer func() {
									if r := recover(); r != nil {
										err = fmt.Errorf("panic: %v", r)
									}
								}()
								err = runCase(nil, c)
							}()
							if err != nil {
								ev.Violation("TestEnumerated", c, err.Error())
								t.Fatalf("case %+v: %v", c, err)
							}
						}
					}
				}
			}
		}
	}
}

// TestTwoSessionsOneConnection: two sessions (different users and suites) opened
// over the same connection and used alternately; each must keep agreeing with
// the BMC's keys for that session.
func TestTwoSessionsOneConnection(t *testing.T) {
	cat := hx.Catalogue()
	ev.Check(t, "TestTwoSessionsOneConnection", ev.PickN(600, 60000), func(t *rapid.T) {
		a := hx.GenCreds(hx.Suites9()).Draw(t, "credsA")
		b := hx.GenCreds(hx.Suites9()).Draw(t, "credsB")
		b.KG = a.KG // the BMC key is per BMC
		if b.User == a.User {
			b.User = (a.User + "x")
			if len(b.User) > 16 {
				b.User = "x"
			}
		}
		w := hx.NewWorldFor(a, true)
		w.BMC.Users[b.User] = append([]byte(nil), b.Password...)
		ctx := context.Background()
		// one options value serves both establishments (the caller changes user,
		// password and suite in it between the two), as a fleet scraper would
		o := a.Opts()
		ob := b.Opts()
		// the two users' passwords may sit next to each other in one buffer
		var arena, arenaBefore []byte
		if rapid.Bool().Draw(t, "passwordsInOneBuffer") {
			arena = append(append(append(make([]byte, 0, 64), a.Password...), b.Password...), "0123456789abcdefghijklmn"...)
			arenaBefore = append([]byte(nil), arena...)
			o.Password, ob.Password = arena[:len(a.Password)], arena[len(a.Password):len(a.Password)+len(b.Password)]
			ev.Label("secrets:two-passwords-in-one-buffer")
		}
		before := *o
		before.Password, before.KG = append([]byte(nil), o.Password...), append([]byte(nil), o.KG...)
		sa, err := w.T.NewV2Session(ctx, o)
		if err != nil {
			t.Fatalf("session A: %v", err)
		}
		if o.Username != before.Username || !bytes.Equal(o.Password, before.Password) || (o.KG == nil) != (a.KG == nil) || !bytes.Equal(o.KG, before.KG) ||
			o.MaxPrivilegeLevel != before.MaxPrivilegeLevel || o.PrivilegeLevelLookup != before.PrivilegeLevelLookup || len(o.CipherSuites) != len(before.CipherSuites) {
			t.Fatalf("NewV2Session modified the caller's options: before %+v after %+v", before, *o)
		}
		if !bytes.Equal(arena, arenaBefore) {
			t.Fatalf("NewV2Session wrote into the caller's buffer behind the password: before % x after % x", arenaBefore, arena)
		}
		o.Username, o.Password, o.MaxPrivilegeLevel, o.PrivilegeLevelLookup, o.CipherSuites = ob.Username, ob.Password, ob.MaxPrivilegeLevel, ob.PrivilegeLevelLookup, ob.CipherSuites
		sb, err := w.T.NewV2Session(ctx, o)
		if err != nil {
			t.Fatalf("session B on the same connection: %v; BMC: %v", err, w.BMC.AllProblems())
		}
		ev.Eval()
		for _, p := range []struct {
			s *bmc.V2Session
			c hx.Creds
		}{{sa, a}, {sb, b}} {
			bs := w.BMC.Sessions[p.s.RemoteID]
			if bs == nil || !bytes.Equal(p.s.SIK, bs.SIK) || !bytes.Equal(p.s.K(1), bs.K1) || !bytes.Equal(p.s.K(2), bs.K2) || p.s.LocalID != bs.ConsoleID {
				t.Fatalf("session of user %q: keys or IDs differ from the BMC's", p.c.User)
			}
		}
		n := rapid.IntRange(2, 8).Draw(t, "commands")
		for i := 0; i < n; i++ {
			s := sa
			if rapid.Bool().Draw(t, "useB") {
				s = sb
			}
			call := rapid.SampledFrom(cat).Draw(t, "command").Prepare(t, w.BMC)
			before := len(w.BMC.Log)
			code, err := s.SendCommand(ctx, call.Cmd)
			if err != nil {
				t.Fatalf("command %s on session %#x failed: %v; BMC: %v", call.Name, s.RemoteID, err, w.BMC.AllProblems())
			}
			rx := w.BMC.Log[before]
			if len(w.BMC.Log) != before+1 || len(rx.Problems) > 0 || rx.Sess == nil || rx.Sess.ID != s.RemoteID || !rx.AuthOK {
				t.Fatalf("command %s on session %#x: BMC verdict %v", call.Name, s.RemoteID, rx.Problems)
			}
			if code == 0 {
				if err := call.Check(); err != nil {
					t.Fatalf("command %s: %v", call.Name, err)
				}
			}
		}
		ev.Label("two-sessions")
		ev.NonTrivial(fmt.Sprintf("two|%v|%v|%d|%d", a.Suite, b.Suite, a.Seed, b.Seed))
	})
}

func TestCoverage(t *testing.T) {
	// every must-succeed suite must have produced sessions; a generator that
	// stops reaching one makes the run inconclusive rather than green
	var need []string
	for _, s := range hx.Suites9() {
		need = append(need, "suite:"+s.String()+":session")
	}
	ev.RequireLabels(t, 1, append(need, "kg", "no-kg", "no-kg:empty-non-nil-slice", "secrets:password-and-kg-in-one-buffer", "secrets:two-passwords-in-one-buffer", "caller-defined-body:60s", "caller-defined-body:70s", "caller-defined-body:00s", "caller-defined-body:190s")...)
	_ = ref.AuthSHA1
}
