// C02: no session unless the BMC proves knowledge of the password.
package c02

import (
	"bytes"
	"errors"
	"fmt"
	"testing"

	"github.com/gebn/bmc"
	"github.com/gebn/bmc/pkg/ipmi"
	"pgregory.net/rapid"

	"verif/harness/evid"
	"verif/harness/hx"
	"verif/harness/memnet"
	"verif/harness/ref"
	"verif/harness/simbmc"
)

var ev *evid.E

func TestMain(m *testing.M) {
	ev = evid.New("C02", "fault_enumeration",
		"a correct handshake configuration (control run must succeed) plus exactly one transcript mutation applied by a man-in-the-middle layer to every reply of one step: BMC uses "+
			"another password / KG; single-bit flip in the RAKP2 console-session-ID echo, BMC random, GUID or AuthCode, in the Open Session Response's BMC session ID (translated back so "+
			"the BMC stays consistent), or in the RAKP4 ICV; status 1..255 (status byte only, and the specified short error form); any other tag; truncation at every shorter length "+
			"(payload cut with the wrapper length fixed up, and raw datagram cut). Bit positions, statuses, tags and cut lengths are enumerated exhaustively for one generated "+
			"configuration per authentication algorithm; random configurations draw mutations at random. Non-trivial = the console received a datagram differing from the control "+
			"transcript and the control succeeded; distinct by (algorithm, mutation)")
	ev.Assume("mutations are persistent for their step (every retransmission is answered with the same mutated reply) and the context ends after 12 transmissions",
		"multi-bit forgeries that need the key, and appended bytes, are outside the property's quantifier")
	evid.Main(m, ev)
}

// Mutation is one transcript fault.
type Mutation struct {
	Kind  string // password, kg, flip, status, statusShort, tag, cutPayload, cutRaw
	Step  string // open, rakp2, rakp4
	Off   int    // payload byte offset (flip), or cut length
	Bit   uint
	Value byte // status or tag
	// LoseFirst replies of the step are lost before the mutated one is delivered
	// (the library retransmits the payload in between)
	LoseFirst int
}

func (m Mutation) String() string {
	return fmt.Sprintf("%s/%s off=%d bit=%d val=%d lost-first=%d", m.Kind, m.Step, m.Off, m.Bit, m.Value, m.LoseFirst)
}

var stepPT = map[string]uint8{"open": ref.PTOpenRsp, "rakp2": ref.PTRAKP2, "rakp4": ref.PTRAKP4}

type outcome struct {
	session bool
	err     error
	pan     any
	changed bool // a reply was actually altered
	sends   int
}

// attempt runs one handshake under the mutation (nil = control).
func attempt(c hx.Creds, m *Mutation) (o outcome) {
	w := hx.NewWorldFor(c, true)
	if m != nil {
		switch m.Kind {
		case "password":
			p := append([]byte(nil), c.Password...)
			if len(p) == 0 {
				p = []byte{0x01}
			} else {
				p[m.Off%len(p)] ^= 1 << (m.Bit % 8)
			}
			w.BMC.Users[c.User] = p
			// a password that differs only in trailing zero padding is the same key
			o.changed = string(ref.PadKey(p)) != string(ref.PadKey(c.Password))
		case "pwprefix", "pwextend", "pwbyte":
			// the BMC holds a password related to the caller's: a proper prefix
			// (e.g. a 20-byte password cut to the 16-byte v1.5 field), an extension,
			// or one byte replaced
			var p []byte
			switch m.Kind {
			case "pwprefix":
				p = append([]byte(nil), c.Password[:m.Off%(len(c.Password)+1)]...)
			case "pwextend":
				p = append(append([]byte(nil), c.Password...), m.Value)
				if len(p) > 20 {
					p = p[:20]
				}
			default:
				p = append([]byte(nil), c.Password...)
				if len(p) > 0 {
					p[m.Off%len(p)] = m.Value
				}
			}
			w.BMC.Users[c.User] = p
			o.changed = string(ref.PadKey(p)) != string(ref.PadKey(c.Password))
		case "zeroTailCut":
			// the BMC's random number happens to make the AuthCode (RAKP 2) or the
			// integrity check value (RAKP 4) end in m.Off zero bytes
			w.BMC.AcceptRC = func(b *simbmc.BMC, s *simbmc.Session) bool {
				code := s.RAKP.RAKP2Code(s.Kuid)
				if m.Step == "rakp4" {
					kg := s.Kuid
					if len(b.KG) > 0 {
						kg = ref.PadKey(b.KG)
					}
					code = s.RAKP.RAKP4ICV(s.RAKP.SIK(kg))
				}
				for _, x := range code[len(code)-m.Off:] {
					if x != 0 {
						return false
					}
				}
				return true
			}
		case "kg":
			if len(c.KG) == 0 {
				w.BMC.KG = []byte("a key the console does not know")[:20]
			} else if m.Bit%2 == 0 {
				w.BMC.KG = nil
				// without a BMC key the user key is used: identical only if equal
				o.changed = string(ref.PadKey(c.KG)) != string(ref.PadKey(c.Password))
			} else {
				k := append([]byte(nil), c.KG...)
				k[m.Off%len(k)] ^= 1 << (m.Bit % 8)
				w.BMC.KG = k
				o.changed = true
			}
			if len(c.KG) == 0 {
				o.changed = true
			}
		}
	}
	stepReplies := 0
	realToFake := map[uint32]uint32{}
	fakeToReal := map[uint32]uint32{}
	w.Net.Peer = func(d []byte) []memnet.Out {
		// translate a flipped BMC session ID back so the BMC stays consistent
		if len(d) > 24 && d[4] == 0x06 && (d[5] == ref.PTRAKP1 || d[5] == ref.PTRAKP3) {
			id := uint32(d[20]) | uint32(d[21])<<8 | uint32(d[22])<<16 | uint32(d[23])<<24
			if real, ok := fakeToReal[id]; ok {
				d = append([]byte(nil), d...)
				d[20], d[21], d[22], d[23] = byte(real), byte(real>>8), byte(real>>16), byte(real>>24)
			}
		}
		outs := w.BMC.Peer(d)
		if m == nil {
			return outs
		}
		for i := range outs {
			b := outs[i].Data
			if len(b) < 17 || b[5]&0x3f != stepPT[m.Step] {
				continue
			}
			stepReplies++
			if stepReplies <= m.LoseFirst {
				outs[i].Data = nil // lost on the way
				o.changed = true
				continue
			}
			pl := b[16:]
			switch m.Kind {
			case "flip":
				if m.Off < len(pl) {
					if m.Step == "open" && m.Off >= 8 && m.Off < 12 {
						real := uint32(pl[8]) | uint32(pl[9])<<8 | uint32(pl[10])<<16 | uint32(pl[11])<<24
						pl[m.Off] ^= 1 << m.Bit
						fake := uint32(pl[8]) | uint32(pl[9])<<8 | uint32(pl[10])<<16 | uint32(pl[11])<<24
						realToFake[real], fakeToReal[fake] = fake, real
					} else {
						pl[m.Off] ^= 1 << m.Bit
					}
					o.changed = true
				}
			case "status":
				if pl[1] != m.Value {
					pl[1] = m.Value
					o.changed = true
				}
			case "statusShort":
				nb := append(append([]byte(nil), b[:16]...), pl[0], m.Value, 0, 0, pl[4], pl[5], pl[6], pl[7])
				nb[14], nb[15] = 8, 0
				outs[i].Data = nb
				o.changed = true
			case "tag":
				if pl[0] != m.Value {
					pl[0] = m.Value
					o.changed = true
				}
			case "zeroTailCut":
				// the zero bytes at the end of the code are cut off (length field fixed up)
				if tail := pl[len(pl)-m.Off:]; m.Off < len(pl) && bytes.Equal(tail, make([]byte, m.Off)) {
					keep := len(pl) - m.Off
					nb := append([]byte(nil), b[:16+keep]...)
					nb[14], nb[15] = byte(keep), byte(keep>>8)
					outs[i].Data = nb
					o.changed = true
				}
			case "cutPayload":
				if m.Off < len(pl) {
					nb := append([]byte(nil), b[:16+m.Off]...)
					nb[14], nb[15] = byte(m.Off), byte(m.Off>>8)
					outs[i].Data = nb
					o.changed = true
				}
			case "cutRaw":
				if m.Off < len(b) {
					outs[i].Data = append([]byte(nil), b[:m.Off]...)
					o.changed = true
				}
			}
		}
		kept := outs[:0]
		for _, out := range outs {
			if out.Data != nil {
				kept = append(kept, out)
			}
		}
		return kept
	}
	defer func() {
		if p := recover(); p != nil {
			o.pan = p
		}
	}()
	// what the connection carried before the handshake: nothing, a capabilities
	// exchange in which the BMC reports two-key login off or on (an unauthenticated
	// claim that proves nothing), or other session-less commands
	switch (c.Seed >> 3) % 4 {
	case 1, 2:
		w.BMC.Data.ChanAuthCap = ref.ChanAuthCap{Channel: 1, Ext: true, V2: true, V15: c.Seed&1 == 0, NonNull: true, KG: (c.Seed>>3)%4 == 2}
		pctx, pcancel := w.Ctx(3)
		w.T.GetChannelAuthenticationCapabilities(pctx, &ipmi.GetChannelAuthenticationCapabilitiesReq{ExtendedData: true, Channel: ipmi.ChannelPresentInterface, MaxPrivilegeLevel: ipmi.PrivilegeLevelAdministrator})
		pcancel()
		if m != nil && (c.Seed>>3)%4 == 1 {
			ev.Label("before-handshake:capabilities-say-one-key-login")
		}
	case 3:
		pctx, pcancel := w.Ctx(3)
		w.T.GetSystemGUID(pctx)
		pcancel()
	}
	ctx, cancel := w.Ctx(12)
	defer cancel()
	s, err := w.T.NewV2Session(ctx, c.Opts())
	o.session, o.err, o.sends = s != nil, err, w.Net.Sends
	return o
}

// judge returns a violation message for a mutated run.
func judge(c hx.Creds, m Mutation) string {
	ctl := attempt(c, nil)
	if ctl.pan != nil || ctl.err != nil || !ctl.session {
		return fmt.Sprintf("control run (no mutation) failed: err=%v panic=%v", ctl.err, ctl.pan)
	}
	o := attempt(c, &m)
	ev.Eval()
	if !o.changed {
		ev.Label("ineffective:" + m.Kind)
		return ""
	}
	if o.pan != nil {
		return fmt.Sprintf("library panicked: %v", o.pan)
	}
	if o.session || o.err == nil {
		return fmt.Sprintf("a session was returned (session=%v err=%v) although the transcript was altered", o.session, o.err)
	}
	needIncorrect := m.Kind == "password" || m.Kind == "pwprefix" || m.Kind == "pwextend" || m.Kind == "pwbyte" || (m.Kind == "flip" && m.Step == "rakp2" && m.Off >= 40)
	if needIncorrect && !errors.Is(o.err, bmc.ErrIncorrectPassword) {
		return fmt.Sprintf("error is %q, want the incorrect-password error", o.err)
	}
	if m.Kind == "pwprefix" && len(c.Password) > 16 && m.Off == 16 {
		ev.Label(fmt.Sprintf("auth%d:pwprefix16-of-%d", c.Suite.Auth, len(c.Password)))
	}
	if m.LoseFirst > 0 {
		ev.Label(fmt.Sprintf("fault-on-retransmission:%s", m.Step))
	}
	ev.Label(fmt.Sprintf("auth%d:%s:%s", c.Suite.Auth, m.Kind, m.Step))
	ev.NonTrivial(fmt.Sprintf("%d|%s", c.Suite.Auth, m))
	ev.Sample(map[string]any{"suite": c.Suite.String(), "mutation": m.String(), "error": o.err.Error(), "transmissions": o.sends})
	return ""
}

func payloadLens(auth uint8) map[string]int {
	return map[string]int{"open": 36, "rakp2": 40 + ref.AuthCodeLen(auth), "rakp4": 8 + ref.ICVLen(auth)}
}

// enumerate lists every single-fault mutation for an authentication algorithm.
func enumerate(auth uint8) []Mutation {
	var ms []Mutation
	pl := payloadLens(auth)
	// bit flips
	for off := 4; off < pl["rakp2"]; off++ {
		for bit := uint(0); bit < 8; bit++ {
			ms = append(ms, Mutation{Kind: "flip", Step: "rakp2", Off: off, Bit: bit})
		}
	}
	for off := 8; off < 12; off++ {
		for bit := uint(0); bit < 8; bit++ {
			ms = append(ms, Mutation{Kind: "flip", Step: "open", Off: off, Bit: bit})
		}
	}
	for off := 8; off < pl["rakp4"]; off++ {
		for bit := uint(0); bit < 8; bit++ {
			ms = append(ms, Mutation{Kind: "flip", Step: "rakp4", Off: off, Bit: bit})
		}
	}
	for _, step := range []string{"open", "rakp2", "rakp4"} {
		for v := 1; v <= 255; v++ {
			ms = append(ms, Mutation{Kind: "status", Step: step, Value: byte(v)}, Mutation{Kind: "statusShort", Step: step, Value: byte(v)}, Mutation{Kind: "tag", Step: step, Value: byte(v)})
		}
		for cut := 0; cut < pl[step]; cut++ {
			ms = append(ms, Mutation{Kind: "cutPayload", Step: step, Off: cut})
		}
		for cut := 0; cut < 16+pl[step]; cut++ {
			ms = append(ms, Mutation{Kind: "cutRaw", Step: step, Off: cut})
		}
	}
	for i := 0; i < 40; i++ {
		ms = append(ms, Mutation{Kind: "password", Off: i, Bit: uint(i)}, Mutation{Kind: "kg", Off: i, Bit: uint(i)})
	}
	// the same faults on a retransmission: the first one or two replies of the step
	// are lost, then the defined RMCP+ status codes (full and short form), an ICV /
	// AuthCode bit flip or a cut arrive
	for _, step := range []string{"open", "rakp2", "rakp4"} {
		for lost := 1; lost <= 2; lost++ {
			for v := 1; v <= 0x12; v++ {
				ms = append(ms, Mutation{Kind: "status", Step: step, Value: byte(v), LoseFirst: lost}, Mutation{Kind: "statusShort", Step: step, Value: byte(v), LoseFirst: lost})
			}
			if step != "open" { // the last byte of RAKP 2 / RAKP 4 is part of the AuthCode / ICV
				ms = append(ms, Mutation{Kind: "flip", Step: step, Off: pl[step] - 1, Bit: uint(lost), LoseFirst: lost})
			}
			ms = append(ms, Mutation{Kind: "cutPayload", Step: step, Off: pl[step] - 1, LoseFirst: lost}, Mutation{Kind: "cutPayload", Step: step, Off: 8, LoseFirst: lost})
		}
	}
	// an AuthCode / integrity check value that ends in zero bytes, with those bytes
	// cut off: a shorter code is not the code
	for _, step := range []string{"rakp2", "rakp4"} {
		ms = append(ms, Mutation{Kind: "zeroTailCut", Step: step, Off: 1}, Mutation{Kind: "zeroTailCut", Step: step, Off: 1, LoseFirst: 1})
		if ev.Thorough() {
			ms = append(ms, Mutation{Kind: "zeroTailCut", Step: step, Off: 2})
		}
	}
	return ms
}

func TestEnumerated(t *testing.T) {
	nconf := ev.Pick(1, 12)
	seed := uint64(ev.Seed)*0x9E3779B97F4A7C15 + 7
	for _, auth := range []uint8{ref.AuthSHA1, ref.AuthMD5, ref.AuthSHA256} {
		for k := 0; k < nconf; k++ {
			seed = seed*6364136223846793005 + 1442695040888963407
			integ := []uint8{ref.IntegSHA1_96, ref.IntegMD5_128, ref.IntegSHA256128}[(seed>>20)%3]
			c := hx.Creds{Suite: ref.Suite{Auth: auth, Integ: integ, Conf: ref.ConfAES}, Priv: uint8(seed>>8) % 6, Lookup: seed>>16&1 == 1, Seed: seed}
			c.User = []string{"", "a", "admin", "sixteen-byte-usr"}[(seed>>24)%4]
			c.Password = []byte(fmt.Sprintf("pw-%x", seed))[:1+(seed>>28)%19]
			if (seed>>32)&1 == 1 {
				c.KG = []byte(fmt.Sprintf("%020x", seed))[:20]
			}
			for _, m := range enumerate(auth) {
				if msg := judge(c, m); msg != "" {
					ev.Violation("TestEnumerated", map[string]any{"creds": c, "mutation": m}, msg)
					t.Fatalf("creds %+v mutation %v: %s", c, m, msg)
				}
			}
		}
	}
	// suites without session integrity (None): the RAKP 4 integrity check value
	// belongs to the authentication algorithm and must be checked all the same
	for _, auth := range []uint8{ref.AuthSHA1, ref.AuthMD5, ref.AuthSHA256} {
		seed = seed*6364136223846793005 + 1442695040888963407
		c := hx.Creds{Suite: ref.Suite{Auth: auth, Integ: ref.IntegNone, Conf: ref.ConfAES}, Priv: uint8(seed>>8) % 6, Lookup: seed>>16&1 == 1, Seed: seed}
		c.User = []string{"", "a", "admin", "sixteen-byte-usr"}[(seed>>24)%4]
		c.Password = []byte(fmt.Sprintf("pw-%x", seed))[:1+(seed>>28)%19]
		if (seed>>32)&1 == 1 {
			c.KG = []byte(fmt.Sprintf("%020x", seed))[:20]
		}
		for _, m := range enumerate(auth) {
			if m.Step != "rakp4" && m.Kind != "kg" && m.Kind != "password" {
				continue
			}
			if msg := judge(c, m); msg != "" {
				ev.Violation("TestEnumerated", map[string]any{"creds": c, "mutation": m}, msg)
				t.Fatalf("creds %+v mutation %v: %s", c, m, msg)
			}
		}
		ev.Label(fmt.Sprintf("auth%d:integrity-none", auth))
	}
	ev.Label("enumeration-complete")
}

// TestRelatedPasswords: for caller passwords of every length 1..20 the BMC holds
// every proper prefix, a one-byte extension, and every position replaced; no
// session may result (the BMC must prove knowledge of the whole password).
func TestRelatedPasswords(t *testing.T) {
	seed := uint64(ev.Seed)*0x9E3779B97F4A7C15 + 99
	for _, auth := range []uint8{ref.AuthSHA1, ref.AuthMD5, ref.AuthSHA256} {
		for n := 1; n <= 20; n++ {
			seed = seed*6364136223846793005 + 1442695040888963407
			integ := []uint8{ref.IntegSHA1_96, ref.IntegMD5_128, ref.IntegSHA256128}[(seed>>20)%3]
			c := hx.Creds{Suite: ref.Suite{Auth: auth, Integ: integ, Conf: ref.ConfAES}, Priv: uint8(seed>>8) % 6, Lookup: seed>>16&1 == 1, Seed: seed}
			c.User = []string{"", "a", "admin", "sixteen-byte-usr"}[(seed>>24)%4]
			c.Password = []byte(fmt.Sprintf("P%016x/%x", seed, ^seed))[:n]
			if (seed>>32)&1 == 1 {
				c.KG = []byte(fmt.Sprintf("%020x", seed))[:20]
			}
			var ms []Mutation
			for k := 0; k < n; k++ {
				ms = append(ms, Mutation{Kind: "pwprefix", Off: k}, Mutation{Kind: "pwbyte", Off: k, Value: byte(seed>>uint(k%32)) | 1}, Mutation{Kind: "pwbyte", Off: k, Value: c.Password[k] ^ 0x20})
			}
			ms = append(ms, Mutation{Kind: "pwextend", Value: 0x01}, Mutation{Kind: "pwextend", Value: 'x'})
			for _, m := range ms {
				if msg := judge(c, m); msg != "" {
					ev.Violation("TestRelatedPasswords", map[string]any{"creds": c, "mutation": m}, msg)
					t.Fatalf("creds %+v mutation %v: %s", c, m, msg)
				}
			}
		}
	}
	ev.Label("related-passwords-complete")
}

// TestLoginSequences: several logins over one connection as the same user, with
// the caller's or the BMC's password / K_G changing between them. Each login is
// judged on its own: a session iff the caller's keys are the BMC's current ones;
// nothing proven by an earlier login may stand in for proof in a later one.
func TestLoginSequences(t *testing.T) {
	ev.Check(t, "TestLoginSequences", ev.PickN(800, 80000), func(t *rapid.T) {
		c := hx.GenCreds(hx.Suites12()).Draw(t, "creds")
		// with one of the library's default suites the caller may leave the suite
		// list empty (discovery, then the defaults)
		c.DefaultSuites = hx.IsLibraryDefault(c.Suite) && rapid.Bool().Draw(t, "defaultSuiteList")
		if c.DefaultSuites {
			ev.Label("sequence:default-suite-list")
		}
		if len(c.Password) == 0 {
			c.Password = []byte{0x31}
		}
		w := hx.NewWorldFor(c, true)
		bmcPw, bmcKG := append([]byte(nil), c.Password...), append([]byte(nil), c.KG...)
		other := func(b []byte, label string) []byte {
			o := append([]byte(nil), b...)
			if len(o) == 0 {
				return []byte("another key value..")
			}
			i := rapid.IntRange(0, len(o)-1).Draw(t, label+"Pos")
			o[i] ^= byte(rapid.IntRange(1, 255).Draw(t, label+"Xor"))
			return o
		}
		same := func(a, b []byte) bool { return string(ref.PadKey(a)) == string(ref.PadKey(b)) }
		n := rapid.IntRange(2, 5).Draw(t, "logins")
		var hist []string
		established, refusedAfterSuccess := 0, false
		for i := 0; i < n; i++ {
			step := rapid.SampledFrom([]string{"correct", "correct", "caller-password-differs", "bmc-password-changed", "caller-kg-differs", "bmc-kg-changed"}).Draw(t, "step")
			callerPw, callerKG := bmcPw, bmcKG
			switch step {
			case "caller-password-differs":
				callerPw = other(bmcPw, "pw")
			case "bmc-password-changed":
				callerPw = bmcPw
				bmcPw = other(bmcPw, "bmcpw")
				w.BMC.Users[c.User] = bmcPw
			case "caller-kg-differs":
				callerKG = other(bmcKG, "kg")
			case "bmc-kg-changed":
				callerKG = bmcKG
				bmcKG = other(bmcKG, "bmckg")
				w.BMC.KG = bmcKG
			}
			hist = append(hist, step)
			cc := c
			cc.Password, cc.KG = callerPw, callerKG
			ctx, cancel := w.Ctx(12)
			s, err := w.T.NewV2Session(ctx, cc.Opts())
			cancel()
			ev.Eval()
			// without a BMC key the user key takes its place on both sides
			effCaller, effBMC := callerKG, bmcKG
			if len(effCaller) == 0 {
				effCaller = callerPw
			}
			if len(effBMC) == 0 {
				effBMC = bmcPw
			}
			pwOK, kgOK := same(callerPw, bmcPw), same(effCaller, effBMC)
			if pwOK && kgOK {
				if err != nil || s == nil {
					t.Fatalf("logins %v: login %d with the BMC's current keys failed: %v; BMC: %v", hist, i+1, err, w.BMC.AllProblems())
				}
				established++
				continue
			}
			if s != nil || err == nil {
				t.Fatalf("logins %v: login %d returned a session (err=%v) although the caller's %s differ from the BMC's", hist, i+1, err, map[bool]string{true: "K_G", false: "password"}[pwOK])
			}
			if !pwOK && !errors.Is(err, bmc.ErrIncorrectPassword) {
				t.Fatalf("logins %v: login %d error is %q, want the incorrect-password error", hist, i+1, err)
			}
			if established > 0 {
				refusedAfterSuccess = true
			}
		}
		if refusedAfterSuccess {
			ev.Label("sequence:refused-after-earlier-success")
			ev.NonTrivial(fmt.Sprintf("seq|%v|%v|%d", c.Suite, hist, c.Seed))
		}
		ev.Sample(map[string]any{"part": "login sequence on one connection", "suite": c.Suite.String(), "logins": hist})
	})
}

func TestRandom(t *testing.T) {
	ev.Check(t, "TestRandom", ev.PickN(1500, 600000), func(t *rapid.T) {
		c := hx.GenCreds(hx.Suites12()).Draw(t, "creds")
		c.DefaultSuites = hx.IsLibraryDefault(c.Suite) && rapid.Bool().Draw(t, "defaultSuiteList")
		pl := payloadLens(c.Suite.Auth)
		m := Mutation{Kind: rapid.SampledFrom([]string{"password", "kg", "pwprefix", "pwextend", "pwbyte", "flip", "flip", "flip", "status", "statusShort", "tag", "cutPayload", "cutRaw", "zeroTailCut"}).Draw(t, "kind")}
		m.Step = rapid.SampledFrom([]string{"open", "rakp2", "rakp4"}).Draw(t, "step")
		switch m.Kind {
		case "zeroTailCut":
			if m.Step == "open" {
				m.Step = "rakp2"
			}
			m.Off = 1
		case "flip":
			lo, hi := map[string]int{"open": 8, "rakp2": 4, "rakp4": 8}[m.Step], map[string]int{"open": 11, "rakp2": pl["rakp2"] - 1, "rakp4": pl["rakp4"] - 1}[m.Step]
			m.Off, m.Bit = rapid.IntRange(lo, hi).Draw(t, "off"), uint(rapid.IntRange(0, 7).Draw(t, "bit"))
		case "status", "statusShort", "tag":
			m.Value = byte(rapid.IntRange(1, 255).Draw(t, "value"))
		case "cutPayload":
			m.Off = rapid.IntRange(0, pl[m.Step]-1).Draw(t, "cut")
		case "cutRaw":
			m.Off = rapid.IntRange(0, 16+pl[m.Step]-1).Draw(t, "cut")
		case "pwprefix", "pwextend", "pwbyte":
			m.Off, m.Value = rapid.IntRange(0, 19).Draw(t, "off"), rapid.Byte().Draw(t, "value")
		default:
			m.Off, m.Bit = rapid.IntRange(0, 19).Draw(t, "off"), uint(rapid.IntRange(0, 7).Draw(t, "bit"))
		}
		if m.Kind != "password" && m.Kind != "kg" && m.Kind != "pwprefix" && m.Kind != "pwextend" && m.Kind != "pwbyte" {
			m.LoseFirst = rapid.SampledFrom([]int{0, 0, 1, 2}).Draw(t, "repliesLostFirst")
		}
		if msg := judge(c, m); msg != "" {
			t.Fatalf("mutation %v: %s", m, msg)
		}
	})
}

func TestCoverage(t *testing.T) {
	need := []string{"before-handshake:capabilities-say-one-key-login"}
	for _, a := range []int{1, 2, 3} {
		for _, k := range []string{"flip:rakp2", "flip:open", "flip:rakp4", "status:open", "status:rakp2", "status:rakp4", "tag:rakp2", "cutPayload:rakp2", "cutRaw:rakp4", "statusShort:open", "zeroTailCut:rakp2", "zeroTailCut:rakp4"} {
			need = append(need, fmt.Sprintf("auth%d:%s", a, k))
		}
	}
	for _, a := range []int{1, 2, 3} {
		need = append(need, fmt.Sprintf("auth%d:integrity-none", a))
		need = append(need, "fault-on-retransmission:open", "fault-on-retransmission:rakp2", "fault-on-retransmission:rakp4")
		for n := 17; n <= 20; n++ {
			need = append(need, fmt.Sprintf("auth%d:pwprefix16-of-%d", a, n))
		}
	}
	ev.RequireLabels(t, 1, append(need, "enumeration-complete", "related-passwords-complete", "sequence:refused-after-earlier-success", "sequence:default-suite-list")...)
}
