// C14: SDR repository retrieval returns one consistent, complete set of records.
package c14

import (
	"context"
	"fmt"
	"strings"
	"sync"
	"testing"
	"time"

	"github.com/gebn/bmc"
	"github.com/gebn/bmc/pkg/ipmi"
	"pgregory.net/rapid"

	"verif/harness/evid"
	"verif/harness/hx"
	"verif/harness/ref"
	"verif/harness/simbmc"
)

var ev *evid.E

func TestMain(m *testing.M) {
	ev = evid.New("C14", "fault_enumeration",
		"generated repositories of 1..40 records (unique IDs anywhere in 0..0xFFFE in arbitrary order, first ID zero or not, types full/compact/event-only/FRU locator/MC locator/OEM, "+
			"Full Sensor Records with generated fields and ID strings in all four encodings incl. empty, ID string <= 16 bytes) retrieved by RetrieveSDRRepository over a real session; "+
			"faults injected before the k-th Get SDR of the walk: reservation cancelled, or repository modified (add / delete / replace with timestamps advanced and the reservation "+
			"cancelled, or an append / delete / replace that keeps the reservation, or an add / delete / replace that cancels the reservation within the same timestamp second). Oracle: returned map == {record's own ID -> reference decoding} of the Full Sensor Records of the single repository "+
			"version current during the final successful walk. Non-trivial = >= 2 record types, >= 1 FSR, and first ID != 0 or a fault injected; distinct by repository + fault")
	ev.Assume("each retry of the retrieval sleeps 0.25-0.75 s in the library's inline exponential back-off, so fault cases run concurrently",
		"BMCs that change content without touching timestamps or reservations are out of scope")
	evid.Main(m, ev)
}

// Rec is one generated record.
type Rec struct {
	ID   uint16
	Type byte
	FSR  *ref.FSR
	Raw  []byte // full record bytes
}

type Repo struct{ Recs []Rec }

func genIDString16() *rapid.Generator[ref.IDString] {
	return rapid.Custom(func(t *rapid.T) ref.IDString {
		s := ref.IDString{Enc: byte(rapid.IntRange(0, 3).Draw(t, "enc"))}
		max := map[byte]int{ref.EncUnicode: 16, ref.EncBCDPlus: 31, ref.Enc6Bit: 21, ref.Enc8Bit: 16}[s.Enc]
		n := rapid.OneOf(rapid.IntRange(0, 2), rapid.IntRange(0, max)).Draw(t, "chars")
		if n > max {
			n = max
		}
		if (s.Enc == ref.Enc8Bit || s.Enc == ref.EncUnicode) && n == 1 {
			n = 0
		}
		s.Codes = make([]byte, n)
		for i := range s.Codes {
			switch s.Enc {
			case ref.EncBCDPlus:
				s.Codes[i] = byte(rapid.IntRange(0, 15).Draw(t, "c"))
			case ref.Enc6Bit:
				s.Codes[i] = byte(rapid.IntRange(0, 63).Draw(t, "c"))
			default:
				s.Codes[i] = byte(rapid.IntRange(0x20, 0x7e).Draw(t, "c"))
			}
		}
		return s
	})
}

func genRec(t *rapid.T, id uint16) Rec {
	typ := rapid.SampledFrom([]byte{ref.RecFull, ref.RecFull, ref.RecFull, ref.RecCompact, ref.RecEvent, ref.RecFRULoc, ref.RecMCLoc, ref.RecOEM}).Draw(t, "type")
	r := Rec{ID: id, Type: typ}
	if typ == ref.RecFull {
		f := hx.GenFSR().Draw(t, "fsr")
		f.ID = genIDString16().Draw(t, "idstring")
		r.FSR = &f
		r.Raw = f.Record(id)
	} else {
		body := rapid.SliceOfN(rapid.Byte(), 0, 59).Draw(t, "body")
		r.Raw = append(ref.SDRHeader(id, 1, 5, typ, byte(len(body))), body...)
	}
	return r
}

func genRepo() *rapid.Generator[Repo] {
	return rapid.Custom(func(t *rapid.T) Repo {
		n := rapid.OneOf(rapid.IntRange(1, 6), rapid.IntRange(1, 40)).Draw(t, "records")
		// 0x0000 doubles as the "first record" alias in Get SDR, so only the
		// first record of a repository can carry it
		ids := rapid.SliceOfNDistinct(rapid.Uint16Range(1, 0xFFFE), n, n, func(v uint16) uint16 { return v }).Draw(t, "ids")
		if rapid.IntRange(0, 3).Draw(t, "firstZero") == 0 {
			ids[0] = 0
		}
		var r Repo
		for _, id := range ids {
			r.Recs = append(r.Recs, genRec(t, id))
		}
		return r
	})
}

func install(b *simbmc.BMC, r Repo) {
	b.Data.Repo.Records = nil
	for _, rec := range r.Recs {
		b.Data.Repo.Records = append(b.Data.Repo.Records, simbmc.Record{ID: rec.ID, Bytes: rec.Raw})
	}
	b.Data.Repo.AddTS, b.Data.Repo.EraseTS = 1000, 900
}

// baseTimestamps are the repository's addition / erase timestamps before any
// modification (each modification adds 5 s): small counters, present-day
// clocks, values just below 2^31 (so that a modification crosses it), beyond
// it, and near the top of the 32-bit range.
var baseTimestamps = [][2]uint32{{1000, 900}, {0x66f00000, 0x66e00000}, {0x7ffffffd, 0x7ffffffc}, {0x7ffffffd, 900}, {0x80000010, 0x7ffffffe}, {0xfffffff0, 0xffffffe0}}

// compare checks the returned map against one repository version.
func compare(got bmc.SDRRepository, r Repo) error {
	want := map[uint16]*ref.FSR{}
	for _, rec := range r.Recs {
		if rec.FSR != nil {
			want[rec.ID] = rec.FSR
		}
	}
	if len(got) != len(want) {
		ids := []uint16{}
		for id := range got {
			ids = append(ids, uint16(id))
		}
		return fmt.Errorf("%d Full Sensor Records returned (IDs %v), the repository holds %d", len(got), ids, len(want))
	}
	for id, f := range want {
		g, ok := got[ipmi.RecordID(id)]
		if !ok {
			return fmt.Errorf("record %#04x is missing from the result (keys: %v)", id, keys(got))
		}
		if err := hx.CmpFSR(f, g); err != nil {
			return fmt.Errorf("record %#04x differs from the reference decoding: %v", id, err)
		}
	}
	return nil
}

func keys(m bmc.SDRRepository) []string {
	var out []string
	for k := range m {
		out = append(out, fmt.Sprintf("%#04x", uint16(k)))
	}
	return out
}

func types(r Repo) (n int, fsr int) {
	seen := map[byte]bool{}
	for _, rec := range r.Recs {
		seen[rec.Type] = true
		if rec.FSR != nil {
			fsr++
		}
	}
	return len(seen), fsr
}

func newSession(seed uint64) (*hx.World, *bmc.V2Session, error) {
	c := hx.Creds{User: "admin", Password: []byte("pw"), Priv: 4, Suite: hx.Suites9()[seed%9], Seed: seed}
	w := hx.NewWorldFor(c, true)
	s, err := w.T.NewV2Session(context.Background(), c.Opts())
	return w, s, err
}

func TestFaultFree(t *testing.T) {
	ev.Check(t, "TestFaultFree", ev.PickN(400, 100000), func(t *rapid.T) {
		r := genRepo().Draw(t, "repo")
		w, s, err := newSession(rapid.Uint64().Draw(t, "seed"))
		if err != nil {
			t.Fatalf("harness: %v", err)
		}
		install(w.BMC, r)
		ctx, cancel := context.WithTimeout(context.Background(), 20*time.Second)
		defer cancel()
		got, err := bmc.RetrieveSDRRepository(ctx, s)
		ev.Eval()
		if err != nil {
			t.Fatalf("retrieval of a static repository failed: %v; BMC: %v", err, w.BMC.AllProblems())
		}
		if err := compare(got, r); err != nil {
			t.Fatalf("%v", err)
		}
		if p := w.BMC.AllProblems(); len(p) > 0 {
			t.Fatalf("BMC reports malformed requests: %v", p)
		}
		nt, nf := types(r)
		ev.Label(fmt.Sprintf("static:types>=2=%v:fsr>=1=%v:firstZero=%v", nt >= 2, nf >= 1, r.Recs[0].ID == 0))
		for _, rec := range r.Recs {
			if rec.FSR != nil {
				ev.Label(fmt.Sprintf("idstring:enc%d:empty=%v", rec.FSR.ID.Enc, len(rec.FSR.ID.Codes) == 0))
			}
		}
		if nt >= 2 && nf >= 1 && r.Recs[0].ID != 0 {
			ev.NonTrivial(fmt.Sprintf("static|%v", summary(r)))
		}
		ev.Sample(map[string]any{"fault": "none", "records": summary(r)})
	})
}

func summary(r Repo) []string {
	var out []string
	for _, rec := range r.Recs {
		s := fmt.Sprintf("%#04x:type%#x", rec.ID, rec.Type)
		if rec.FSR != nil {
			s += fmt.Sprintf(":id(enc%d,%d chars)", rec.FSR.ID.Enc, len(rec.FSR.ID.Codes))
		}
		out = append(out, s)
	}
	return out
}

// Fault is one injected event.
type Fault struct {
	RepoSeed int
	K        int    // before the K-th Get SDR
	Kind     string // cancel, add, delete, replace (timestamps advance, reservation lost), *-keep (timestamps advance, reservation kept), *-sametime (reservation lost, timestamps unchanged)
	// an optional second fault, before the K2-th Get SDR (counted over the whole
	// retrieval, so it normally hits the repeated walk)
	K2    int
	Kind2 string
}

// mutateRepo returns the new version for a modifying fault.
func mutateRepo(r Repo, f Fault) Repo {
	n := Repo{Recs: append([]Rec(nil), r.Recs...)}
	extra := genRepo().Example(f.RepoSeed*31 + f.K + 7).Recs[0]
	used := map[uint16]bool{}
	for _, rec := range r.Recs {
		used[rec.ID] = true
	}
	for used[extra.ID] || extra.ID == 0 {
		extra.ID++
		if extra.ID == 0xFFFF {
			extra.ID = 1
		}
	}
	// re-encode the extra record under its final ID
	if extra.FSR != nil {
		extra.Raw = extra.FSR.Record(extra.ID)
	} else {
		extra.Raw[0], extra.Raw[1] = byte(extra.ID), byte(extra.ID>>8)
	}
	switch f.Kind {
	case "add", "add-sametime":
		pos := (f.K * 7) % (len(n.Recs) + 1)
		if pos == 0 && n.Recs[0].ID == 0 {
			pos = 1 // ID 0x0000 may only be carried by the first record
		}
		n.Recs = append(n.Recs[:pos], append([]Rec{extra}, n.Recs[pos:]...)...)
	case "append-keep":
		n.Recs = append(n.Recs, extra)
	case "delete", "delete-keep", "delete-sametime":
		if len(n.Recs) > 1 {
			pos := (f.K * 5) % len(n.Recs)
			n.Recs = append(n.Recs[:pos], n.Recs[pos+1:]...)
		}
	case "replace", "replace-keep", "replace-sametime":
		pos := (f.K * 3) % len(n.Recs)
		extra.ID = n.Recs[pos].ID
		if extra.FSR != nil {
			extra.Raw = extra.FSR.Record(extra.ID)
		} else {
			extra.Raw = append([]byte(nil), extra.Raw...)
			extra.Raw[0], extra.Raw[1] = byte(extra.ID), byte(extra.ID>>8)
		}
		n.Recs[pos] = extra
	}
	return n
}

func runFault(f Fault) (msg string, nontrivial string) {
	r := genRepo().Example(f.RepoSeed)
	w, s, err := newSession(uint64(f.RepoSeed)*17 + uint64(f.K))
	if err != nil {
		return "harness: " + err.Error(), ""
	}
	install(w.BMC, r)
	ts := baseTimestamps[(f.RepoSeed+f.K)%len(baseTimestamps)]
	w.BMC.Data.Repo.AddTS, w.BMC.Data.Repo.EraseTS = ts[0], ts[1]
	if ts[0] >= 0x7ffffff0 && ts[0] < 0x80000000 {
		ev.Label("timestamps-cross-2^31")
	}
	final := r
	fired := false
	fired2 := false
	apply := func(rp *simbmc.Repo, cur Repo, kind string, k int) Repo {
		switch kind {
		case "cancel":
			rp.CancelReservation()
			return cur
		}
		nv := mutateRepo(cur, Fault{RepoSeed: f.RepoSeed, K: k, Kind: kind})
		rp.Records = nil
		for _, rec := range nv.Recs {
			rp.Records = append(rp.Records, simbmc.Record{ID: rec.ID, Bytes: rec.Raw})
		}
		switch kind {
		case "add-sametime", "delete-sametime", "replace-sametime":
			// a modification within the same second as the previous one: the
			// one-second timestamps do not move, only the reservation is lost
		case "delete", "delete-keep":
			rp.EraseTS += 5
		case "replace", "replace-keep":
			rp.EraseTS += 5
			rp.AddTS += 5
		default:
			rp.AddTS += 5
		}
		if !strings.HasSuffix(kind, "-keep") {
			rp.CancelReservation()
		}
		return nv
	}
	w.BMC.Data.Repo.BeforeGetSDR = func(rp *simbmc.Repo, k int) {
		if !fired && k == f.K {
			fired = true
			final = apply(rp, final, f.Kind, f.K)
		} else if fired && !fired2 && f.Kind2 != "" && k == f.K2 {
			fired2 = true
			final = apply(rp, final, f.Kind2, f.K2)
		}
	}
	ctx, cancel := context.WithTimeout(context.Background(), 30*time.Second)
	defer cancel()
	got, err := bmc.RetrieveSDRRepository(ctx, s)
	if err != nil {
		return fmt.Sprintf("fault %+v: retrieval failed although the repository was stable after the single fault: %v", f, err), ""
	}
	if !fired {
		if cerr := compare(got, r); cerr != nil {
			return fmt.Sprintf("fault %+v (never reached): %v", f, cerr), ""
		}
		return "", ""
	}
	if cerr := compare(got, final); cerr != nil {
		mixed := ""
		if compare(got, r) == nil {
			mixed = " (it equals the version from before the modification)"
		}
		return fmt.Sprintf("fault %+v: result does not correspond to the repository version current during the final walk%s: %v; before %v after %v", f, mixed, cerr, summary(r), summary(final)), ""
	}
	if p := w.BMC.AllProblems(); len(p) > 0 {
		return fmt.Sprintf("fault %+v: BMC reports malformed requests: %v", f, p), ""
	}
	return "", fmt.Sprintf("%+v", f)
}

func walkLength(repoSeed int) int {
	r := genRepo().Example(repoSeed)
	n := 0
	for _, rec := range r.Recs {
		n++
		if rec.FSR != nil {
			n++
		}
	}
	return n
}

func TestFaults(t *testing.T) {
	kinds := []string{"cancel", "add", "delete", "replace", "append-keep", "delete-keep", "replace-keep", "add-sametime", "delete-sametime", "replace-sametime"}
	var faults []Fault
	repos := ev.Pick(12, 60)
	for i := 0; i < repos; i++ {
		seed := int(ev.Seed)*1009 + i*7 + 1
		L := walkLength(seed)
		for k := 1; k <= L; k++ {
			if !ev.Thorough() && (k+i)%3 != 0 && k != 1 && k != L {
				continue
			}
			for ki, kind := range kinds {
				if !ev.Thorough() && (k+ki+i)%2 != 0 {
					continue
				}
				faults = append(faults, Fault{RepoSeed: seed, K: k, Kind: kind})
			}
		}
	}
	if !ev.Thorough() && len(faults) > 330 {
		faults = faults[:330]
	}
	// double faults: a second event during the repeated walk
	for i := 0; i < ev.Pick(6, 40); i++ {
		seed := int(ev.Seed)*1009 + i*7 + 1
		L := walkLength(seed)
		for j, kind := range kinds {
			k := 1 + (i+j)%L
			k2 := k + 1 + (i*3+j)%L
			faults = append(faults, Fault{RepoSeed: seed, K: k, Kind: kind, K2: k2, Kind2: kinds[(j+i+1)%len(kinds)]})
		}
	}
	var mu sync.Mutex
	var wg sync.WaitGroup
	sem := make(chan struct{}, 256)
	var firstMsg string
	var firstFault Fault
	for _, f := range faults {
		f := f
		wg.Add(1)
		sem <- struct{}{}
		go func() {
			defer wg.Done()
			defer func() { <-sem }()
			var msg, nt string
			func() {
				defer func() {
					if r := recover(); r != nil {
						msg = fmt.Sprintf("fault %+v: panic: %v", f, r)
					}
				}()
				msg, nt = runFault(f)
			}()
			mu.Lock()
			defer mu.Unlock()
			ev.Eval()
			if msg != "" && firstMsg == "" {
				firstMsg, firstFault = msg, f
			}
			if nt != "" {
				ev.NonTrivial(nt)
				ev.Label("fault:" + f.Kind)
				if f.Kind2 != "" {
					ev.Label("double-fault")
				}
			}
			if f.K == 1 {
				ev.Sample(map[string]any{"fault": f, "records": summary(genRepo().Example(f.RepoSeed))})
			}
		}()
	}
	wg.Wait()
	if firstMsg != "" {
		ev.Violation("TestFaults", firstFault, firstMsg)
		t.Fatalf("%s", firstMsg)
	}
	ev.Label("faults-complete")
}

func TestCoverage(t *testing.T) {
	ev.RequireLabels(t, 1, "faults-complete", "timestamps-cross-2^31", "fault:cancel", "fault:add", "fault:delete", "fault:replace", "fault:append-keep", "fault:delete-keep", "fault:replace-keep", "fault:add-sametime", "fault:delete-sametime", "fault:replace-sametime", "double-fault",
		"idstring:enc0:empty=true", "idstring:enc3:empty=true", "idstring:enc1:empty=false", "idstring:enc2:empty=false")
}
