package c14

import (
	"context"
	"testing"

	"github.com/gebn/bmc"

	"verif/harness/ref"
)

func TestRegressionFirstRecordOwnID(t *testing.T) {
	f1 := &ref.FSR{Number: 1, ID: ref.IDString{Enc: ref.Enc8Bit, Codes: []byte("first")}}
	f2 := &ref.FSR{Number: 2, ID: ref.IDString{Enc: ref.Enc8Bit}}
	r := Repo{Recs: []Rec{{ID: 0x0123, Type: ref.RecFull, FSR: f1, Raw: f1.Record(0x0123)}, {ID: 0x8001, Type: ref.RecFull, FSR: f2, Raw: f2.Record(0x8001)}}}
	w, s, err := newSession(5)
	if err != nil {
		t.Fatal(err)
	}
	install(w.BMC, r)
	got, err := bmc.RetrieveSDRRepository(context.Background(), s)
	ev.Eval()
	if err != nil {
		ev.Violation("TestRegressionFirstRecordOwnID", summary(r), "retrieval failed: "+err.Error())
		t.Fatal(err)
	}
	if cerr := compare(got, r); cerr != nil {
		ev.Violation("TestRegressionFirstRecordOwnID", summary(r), cerr.Error())
		t.Fatal(cerr)
	}
}
