// C12: the cipher suite used is the caller's first supported preference, never another.
package c12

import (
	"errors"
	"fmt"
	"testing"

	"github.com/gebn/bmc"
	"github.com/gebn/bmc/pkg/ipmi"
	"pgregory.net/rapid"

	"verif/harness/evid"
	"verif/harness/hx"
	"verif/harness/memnet"
	"verif/harness/ref"
	"verif/harness/simbmc"
)

var ev *evid.E

func TestMain(m *testing.M) {
	ev = evid.New("C12", "exploration",
		"(a) selection, single opens and sequences of 2..4 opens on one connection: universe of 6 suites (17, 3, MD5/HMAC-MD5-128/AES, SHA1/HMAC-SHA256-128/AES, one with an unsupported integrity algorithm, one with confidentiality None); every "+
			"ordered preference list of length 0..3, repetitions included (259), x every advertised subset (64), plus generated longer lists,, advertised through chunked Get Channel Cipher Suites records in a seed-dependent "+
			"order; oracle: the Open Session Request seen by the BMC proposes the first preferred suite that is advertised (defaults 17 then 3; a single preference without any discovery "+
			"request), or the no-supported-cipher-suite error and no Open Session Request. (b) confirmation: the BMC answers the proposal with every algorithm triple of the enumerated "+
			"set and then completes the handshake consistently with its answer; oracle: a session is returned iff answered == proposed, and then carries exactly those algorithms. "+
			"Non-trivial = (a) >= 2 preferences with the first one not advertised, (b) answered != proposed; distinct by case")
	ev.Assume("a BMC answering an authentication algorithm the reference does not know completes RAKP with HMAC-SHA1 (any choice is as good: the library must refuse before)")
	evid.Main(m, ev)
}

var universe = []ref.Suite{
	{Auth: ref.AuthSHA256, Integ: ref.IntegSHA256128, Conf: ref.ConfAES}, // 17
	{Auth: ref.AuthSHA1, Integ: ref.IntegSHA1_96, Conf: ref.ConfAES},     // 3
	{Auth: ref.AuthMD5, Integ: ref.IntegMD5_128, Conf: ref.ConfAES},
	{Auth: ref.AuthSHA1, Integ: ref.IntegSHA256128, Conf: ref.ConfAES},
	{Auth: ref.AuthSHA1, Integ: ref.IntegMD5Plain, Conf: ref.ConfAES}, // MD5-128: not supported by the library
	{Auth: ref.AuthSHA1, Integ: ref.IntegSHA1_96, Conf: ref.ConfNone},
}

func prefLists() [][]int {
	// every list of length 0..3 over the universe, repetitions included
	out := [][]int{{}}
	n := len(universe)
	for a := 0; a < n; a++ {
		out = append(out, []int{a})
		for b := 0; b < n; b++ {
			out = append(out, []int{a, b})
			for c := 0; c < n; c++ {
				out = append(out, []int{a, b, c})
			}
		}
	}
	return out
}

// buildRecords encodes the advertised subset of the universe as Cipher Suite
// Record data.
// fillerAuth is the authentication algorithm of the filler records buildRecords
// puts in front: None normally; an OEM value where None/None/None (Cipher Suite 0)
// is itself one of the suites under test.
var fillerAuth byte

func buildRecords(advertised int, seed uint64) []byte {
	// advertise the subset in a seed-dependent rotation and record style: one
	// record per suite; suites sharing authentication and confidentiality merged
	// into one record listing several integrity algorithms under one ID (22.15.1
	// allows several algorithms per record); or one record per suite, all under
	// the same ID. The advertised set of suites is the same in every style.
	var recs []byte
	rot := int(seed % 6)
	style := int(seed/6) % 3
	// records of other suites (authentication None, which nobody prefers) of 3, 4
	// and 5 bytes in front shift the interesting records across the 16-byte chunk
	// boundaries at every byte offset
	for i := int(seed/18) % 7; i > 0; i-- {
		f := ref.SuiteRecord{ID: byte(0x40 + i), Auth: fillerAuth}
		switch (int(seed/126) + i) % 3 {
		case 1:
			f.Integs = []byte{0}
		case 2:
			f.Integs, f.Confs = []byte{0}, []byte{0}
		}
		recs = append(recs, f.Bytes()...)
	}
	merged := map[[2]uint8]bool{}
	for k := 0; k < 6; k++ {
		i := (k + rot) % 6
		if advertised&(1<<uint(i)) == 0 {
			continue
		}
		s := universe[i]
		r := ref.SuiteRecord{ID: byte(i + 1), Auth: s.Auth, Integs: []byte{s.Integ}, Confs: []byte{s.Conf}}
		if i%2 == 1 {
			r.OEM, r.IANA, r.ID = true, 0x1234+uint32(i), byte(0x80+i)
		}
		switch style {
		case 1:
			g := [2]uint8{s.Auth, s.Conf}
			if merged[g] {
				continue
			}
			merged[g] = true
			r.Integs = nil
			for k2 := 0; k2 < 6; k2++ {
				j := (k2 + rot) % 6
				if advertised&(1<<uint(j)) != 0 && universe[j].Auth == s.Auth && universe[j].Conf == s.Conf {
					r.Integs = append(r.Integs, universe[j].Integ)
				}
			}
		case 2:
			r.OEM, r.IANA, r.ID = false, 0, 0x11
		}
		if len(r.Integs) == 1 && r.Integs[0] == 0 {
			r.Integs = nil
		}
		if s.Conf == 0 {
			r.Confs = nil
		}
		recs = append(recs, r.Bytes()...)
	}
	if style == 1 && len(merged) > 0 {
		ev.Label("advertisement:several-algorithms-per-record")
	}
	if style == 2 {
		ev.Label("advertisement:same-id-for-all-records")
	}
	return recs
}

func runSelection(pref []int, advertised int, seed uint64) (msg string, nontrivial bool) {
	c := hx.Creds{User: "admin", Password: []byte("pw"), Priv: 4, Seed: seed}
	w := hx.NewWorldFor(c, true)
	return selectOnce(w, c, pref, advertised, seed)
}

// selectOnce opens one session on an existing connection and checks the proposal.
func selectOnce(w *hx.World, c hx.Creds, pref []int, advertised int, seed uint64) (msg string, nontrivial bool) {
	logStart := len(w.BMC.Log)
	w.BMC.Data.CipherReqs = 0
	recs := buildRecords(advertised, seed)
	w.BMC.SuiteRecords = recs
	opts := c.Opts()
	opts.CipherSuites = nil
	for _, i := range pref {
		opts.CipherSuites = append(opts.CipherSuites, hx.LibSuite(universe[i]))
	}
	// expected proposal
	eff := pref
	if len(eff) == 0 {
		eff = []int{0, 1}
	}
	want := -1
	if len(eff) == 1 {
		want = eff[0]
	} else {
		for _, i := range eff {
			if advertised&(1<<uint(i)) != 0 {
				want = i
				break
			}
		}
	}
	nontrivial = len(eff) >= 2 && advertised&(1<<uint(eff[0])) == 0
	ctx, cancel := w.Ctx(30)
	defer cancel()
	sess, err := w.T.NewV2Session(ctx, opts)
	var open *ref.OpenReq
	opens := 0
	for _, rx := range w.BMC.Log[logStart:] {
		if rx.OpenReq != nil {
			opens++
			if open == nil {
				open = rx.OpenReq
			}
		}
	}
	where := fmt.Sprintf("preferences %v advertised %06b", pref, advertised)
	if len(eff) == 1 && w.BMC.Data.CipherReqs != 0 {
		return fmt.Sprintf("%s: %d discovery requests although a single suite was given", where, w.BMC.Data.CipherReqs), nontrivial
	}
	if len(eff) > 1 && w.BMC.Data.CipherReqs == 0 {
		return fmt.Sprintf("%s: no discovery request although several suites were acceptable", where), nontrivial
	}
	if want < 0 {
		if !errors.Is(err, bmc.ErrNoSupportedCipherSuite) || sess != nil {
			return fmt.Sprintf("%s: no preferred suite is advertised, got session=%v err=%v, want the no-supported-cipher-suite error", where, sess != nil, err), nontrivial
		}
		if opens != 0 {
			return fmt.Sprintf("%s: an Open Session Request was sent although nothing acceptable is advertised", where), nontrivial
		}
		return "", nontrivial
	}
	if open == nil {
		return fmt.Sprintf("%s: no Open Session Request seen (err=%v), expected a proposal of %v", where, err, universe[want]), nontrivial
	}
	got := ref.Suite{Auth: open.Algs[0].Alg, Integ: open.Algs[1].Alg, Conf: open.Algs[2].Alg}
	if got != universe[want] || open.Algs[0].Length != 8 || open.Algs[1].Length != 8 || open.Algs[2].Length != 8 {
		return fmt.Sprintf("%s: proposed %v, want %v (the first preferred suite that is advertised)", where, got, universe[want]), nontrivial
	}
	if hx.MustSucceed(universe[want]) && universe[want].Integ != ref.IntegMD5Plain {
		if err != nil || sess == nil {
			return fmt.Sprintf("%s: suite %v proposed but no session: %v; BMC: %v", where, got, err, w.BMC.AllProblems()), nontrivial
		}
		if uint8(sess.AuthenticationAlgorithm) != got.Auth || uint8(sess.IntegrityAlgorithm) != got.Integ || uint8(sess.ConfidentialityAlgorithm) != got.Conf {
			return fmt.Sprintf("%s: session algorithms %v/%v/%v differ from the proposed %v", where, sess.AuthenticationAlgorithm, sess.IntegrityAlgorithm, sess.ConfidentialityAlgorithm, got), nontrivial
		}
	} else if err == nil || sess != nil {
		return fmt.Sprintf("%s: suite %v cannot be used by the library, but a session was returned", where, got), nontrivial
	}
	return "", nontrivial
}

func TestSelection(t *testing.T) {
	n := 0
	for _, pref := range prefLists() {
		for adv := 0; adv < 64; adv++ {
			n++
			var msg string
			var nt bool
			func() {
				defer func() {
					if r := recover(); r != nil {
						msg = fmt.Sprintf("panic: %v", r)
					}
				}()
				msg, nt = runSelection(pref, adv, uint64(ev.Seed)*7+uint64(n))
			}()
			ev.Eval()
			if msg != "" {
				ev.Violation("TestSelection", map[string]any{"preferences": pref, "advertised": adv, "n": n}, msg)
				t.Fatalf("%s", msg)
			}
			if nt {
				ev.NonTrivial(fmt.Sprintf("sel|%v|%d", pref, adv))
				ev.Label("selection:first-preference-not-advertised")
			}
			if n%503 == 0 {
				ev.Sample(map[string]any{"part": "selection", "preferences": pref, "advertised": fmt.Sprintf("%06b", adv)})
			}
		}
	}
	ev.Label("selection-complete")
}

// TestSelectionWithSuiteZero: the same selection rule over a universe that
// contains Cipher Suite 0 (no authentication, integrity or confidentiality: the
// zero value of the library's suite type), which a caller may list and a BMC may
// advertise like any other. Every list of length 0..3 x every advertised subset.
func TestSelectionWithSuiteZero(t *testing.T) {
	old := universe
	defer func() { universe, fillerAuth = old, 0 }()
	universe = []ref.Suite{old[0], old[1], {Auth: 0, Integ: 0, Conf: 0}, old[2]}
	fillerAuth = 0x3E // an OEM authentication algorithm nobody prefers
	n := 0
	for _, pref := range prefLists() {
		for adv := 0; adv < 1<<uint(len(universe)); adv++ {
			n++
			var msg string
			var nt bool
			func() {
				defer func() {
					if r := recover(); r != nil {
						msg = fmt.Sprintf("panic: %v", r)
					}
				}()
				msg, nt = runSelection(pref, adv, uint64(ev.Seed)*17+uint64(n))
			}()
			ev.Eval()
			if msg != "" {
				msg = "(universe: 17, 3, suite 0, MD5 suite) " + msg
				ev.Violation("TestSelectionWithSuiteZero", map[string]any{"preferences": pref, "advertised": adv, "n": n}, msg)
				t.Fatalf("%s", msg)
			}
			if nt {
				ev.NonTrivial(fmt.Sprintf("sel0|%v|%d", pref, adv))
			}
		}
	}
	ev.Label("selection-with-suite-zero")
}

func runConfirmation(proposed ref.Suite, answered ref.Suite, seed uint64) string {
	return runConfirmationLens(proposed, answered, nil, seed)
}

// runConfirmationLens: lens, if not nil, are the payload-length bytes the BMC puts
// into the three algorithm payloads of its response.
func runConfirmationLens(proposed ref.Suite, answered ref.Suite, lens *[3]byte, seed uint64) string {
	c := hx.Creds{User: "admin", Password: []byte("pw"), Priv: 4, Suite: proposed, Seed: seed}
	w := hx.NewWorldFor(c, true)
	w.BMC.OpenOverride = func(b *simbmc.BMC, rx *simbmc.Rx, req *ref.OpenReq, def *ref.OpenRsp) *ref.OpenRsp {
		def.Status = 0
		def.Algs = [3]byte{answered.Auth, answered.Integ, answered.Conf}
		if lens != nil {
			def.LensSet, def.Lens = true, *lens
		}
		return def
	}
	var sess *bmc.V2Session
	var err error
	var pan any
	func() {
		defer func() { pan = recover() }()
		ctx, cancel := w.Ctx(10)
		defer cancel()
		sess, err = w.T.NewV2Session(ctx, c.Opts())
	}()
	where := fmt.Sprintf("proposed %v, BMC answered %v", proposed, answered)
	if lens != nil {
		where += fmt.Sprintf(" with payload-length bytes %v", *lens)
		if answered == proposed {
			return "" // same algorithms under an odd length byte: either outcome is fine
		}
	}
	if pan != nil {
		return fmt.Sprintf("%s: library panicked: %v", where, pan)
	}
	if answered == proposed {
		if err != nil || sess == nil {
			return fmt.Sprintf("%s: confirmation of the proposal did not yield a session: %v", where, err)
		}
		if uint8(sess.AuthenticationAlgorithm) != proposed.Auth || uint8(sess.IntegrityAlgorithm) != proposed.Integ || uint8(sess.ConfidentialityAlgorithm) != proposed.Conf {
			return fmt.Sprintf("%s: session algorithms %v/%v/%v", where, sess.AuthenticationAlgorithm, sess.IntegrityAlgorithm, sess.ConfidentialityAlgorithm)
		}
		return ""
	}
	if err == nil || sess != nil {
		algs := ""
		if sess != nil {
			algs = fmt.Sprintf(" with algorithms %v/%v/%v", sess.AuthenticationAlgorithm, sess.IntegrityAlgorithm, sess.ConfidentialityAlgorithm)
		}
		return fmt.Sprintf("%s: a session was returned%s although the BMC did not confirm the proposed algorithms", where, algs)
	}
	return ""
}

func TestConfirmation(t *testing.T) {
	vals := []uint8{0, 1, 2, 3, 4, 5, 0x30, 0x3F}
	if ev.Thorough() {
		vals = vals[:0]
		for v := 0; v < 64; v++ {
			vals = append(vals, uint8(v))
		}
	}
	proposals := []ref.Suite{universe[0], universe[1]}
	if ev.Thorough() {
		proposals = []ref.Suite{universe[0]}
	}
	n := 0
	for _, p := range proposals {
		for _, a := range vals {
			for _, i := range vals {
				for _, c := range vals {
					n++
					ans := ref.Suite{Auth: a, Integ: i, Conf: c}
					msg := runConfirmation(p, ans, uint64(ev.Seed)*11+uint64(n))
					ev.Eval()
					if msg != "" {
						ev.Violation("TestConfirmation", map[string]any{"proposed": p.String(), "answered": ans.String()}, msg)
						t.Fatalf("%s", msg)
					}
					if ans != p {
						ev.NonTrivial(fmt.Sprintf("conf|%v|%v", p, ans))
						ev.Label("confirmation:answered-differs")
					} else {
						ev.Label("confirmation:answered-equals")
					}
					if n%97 == 0 {
						ev.Sample(map[string]any{"part": "confirmation", "proposed": p.String(), "answered": ans.String()})
					}
				}
			}
		}
	}
	// the same with payload-length bytes other than 8 in the response (0 is the
	// wildcard spelling of a request): a different algorithm is a different
	// algorithm whatever the length byte says
	for _, p := range proposals {
		for class := 0; class < 3; class++ {
			for _, alg := range []uint8{0, 1, 2, 3, 4} {
				for _, l := range []byte{0, 4, 7, 9, 0xff} {
					n++
					ans := p
					switch class {
					case 0:
						ans.Auth = alg
					case 1:
						ans.Integ = alg
					default:
						ans.Conf = alg
					}
					for _, all := range []bool{false, true} {
						lens := [3]byte{8, 8, 8}
						lens[class] = l
						if all {
							lens = [3]byte{l, l, l}
						}
						msg := runConfirmationLens(p, ans, &lens, uint64(ev.Seed)*13+uint64(n))
						ev.Eval()
						if msg != "" {
							ev.Violation("TestConfirmation", map[string]any{"proposed": p.String(), "answered": ans.String(), "lengthBytes": lens}, msg)
							t.Fatalf("%s", msg)
						}
						if ans != p {
							ev.NonTrivial(fmt.Sprintf("conf-len|%v|%v|%v", p, ans, lens))
							ev.Label("confirmation:odd-payload-length-byte")
						}
					}
				}
			}
		}
	}
	ev.Label("confirmation-complete")
}

// TestRandomConfirmation: generated credentials and suites, random answers.
func TestRandomConfirmation(t *testing.T) {
	ev.Check(t, "TestRandomConfirmation", ev.PickN(1500, 300000), func(t *rapid.T) {
		p := rapid.SampledFrom(hx.Suites9()).Draw(t, "proposed")
		ans := p
		switch rapid.IntRange(0, 3).Draw(t, "field") {
		case 0:
			ans.Auth = uint8(rapid.IntRange(0, 63).Draw(t, "auth"))
		case 1:
			ans.Integ = uint8(rapid.IntRange(0, 63).Draw(t, "integ"))
		case 2:
			ans.Conf = uint8(rapid.IntRange(0, 63).Draw(t, "conf"))
		}
		if msg := runConfirmation(p, ans, rapid.Uint64().Draw(t, "seed")); msg != "" {
			t.Fatalf("%s", msg)
		}
		ev.Eval()
		if ans != p {
			ev.NonTrivial(fmt.Sprintf("rconf|%v|%v", p, ans))
		}
	})
	_ = ipmi.CipherSuite3
}

// TestRandomSelection: longer preference lists (up to 8 entries, duplicates
// allowed) against generated advertised subsets.
func TestRandomSelection(t *testing.T) {
	ev.Check(t, "TestRandomSelection", ev.PickN(1500, 300000), func(t *rapid.T) {
		n := rapid.IntRange(2, 8).Draw(t, "len")
		pref := make([]int, n)
		for i := range pref {
			pref[i] = rapid.IntRange(0, len(universe)-1).Draw(t, "suite")
		}
		adv := rapid.IntRange(0, 63).Draw(t, "advertised")
		msg, nt := runSelection(pref, adv, rapid.Uint64().Draw(t, "seed"))
		ev.Eval()
		if msg != "" {
			t.Fatalf("%s", msg)
		}
		if nt {
			ev.NonTrivial(fmt.Sprintf("rsel|%v|%d", pref, adv))
		}
	})
}

// TestSequences: several session opens on ONE connection, each with its own
// preference list (and possibly a changed advertised set); every open must obey
// the rule on its own, whatever was negotiated before.
func TestSequences(t *testing.T) {
	ev.Check(t, "TestSequences", ev.PickN(1500, 100000), func(t *rapid.T) {
		seed := rapid.Uint64().Draw(t, "seed")
		c := hx.Creds{User: "admin", Password: []byte("pw"), Priv: 4, Seed: seed}
		w := hx.NewWorldFor(c, true)
		n := rapid.IntRange(2, 4).Draw(t, "opens")
		adv := rapid.IntRange(0, 63).Draw(t, "advertised")
		var hist []string
		for i := 0; i < n; i++ {
			l := rapid.IntRange(0, 3).Draw(t, "len")
			pref := make([]int, l)
			for j := range pref {
				// mostly the four usable suites, so that sessions really get established
				pref[j] = rapid.SampledFrom([]int{0, 1, 2, 3, 0, 1, 4, 5}).Draw(t, "suite")
			}
			if rapid.IntRange(0, 3).Draw(t, "readvertise") == 0 {
				adv = rapid.IntRange(0, 63).Draw(t, "advertisedNow")
			}
			hist = append(hist, fmt.Sprintf("%v/%06b", pref, adv))
			msg, _ := selectOnce(w, c, pref, adv, seed+uint64(i))
			if msg != "" {
				t.Fatalf("open %d of history %v on one connection: %s", i+1, hist, msg)
			}
		}
		ev.Eval()
		ev.NonTrivial(fmt.Sprintf("seq|%v", hist))
		ev.Label("sequence-of-opens")
		ev.Sample(map[string]any{"part": "sequence on one connection", "opens (preferences/advertised)": hist})
	})
}

// TestDiscoveryFaults: the retrieval of the advertised list fails part-way (one
// list index answered with a permanent completion code). Whatever the library
// then does, it must not propose a later preference than the first one the BMC
// advertises in its complete list; not proposing at all (an error) is fine.
func TestDiscoveryFaults(t *testing.T) {
	ev.Check(t, "TestDiscoveryFaults", ev.PickN(800, 80000), func(t *rapid.T) {
		seed := rapid.Uint64().Draw(t, "seed")
		c := hx.Creds{User: "admin", Password: []byte("pw"), Priv: 4, Seed: seed}
		w := hx.NewWorldFor(c, true)
		l := rapid.SampledFrom([]int{0, 2, 3, 4}).Draw(t, "len")
		pref := make([]int, l)
		for i := range pref {
			pref[i] = rapid.IntRange(0, len(universe)-1).Draw(t, "suite")
		}
		advertised := rapid.IntRange(0, 63).Draw(t, "advertised") | rapid.IntRange(0, 63).Draw(t, "advertisedToo")
		recs := buildRecords(advertised, seed)
		// filler records in front push the interesting ones into later chunks
		for i := rapid.IntRange(0, 6).Draw(t, "fillerRecords"); i > 0; i-- {
			recs = append((&ref.SuiteRecord{ID: byte(0x40 + i), Auth: 0, Integs: []byte{0}, Confs: []byte{0}}).Bytes(), recs...)
		}
		w.BMC.SuiteRecords = recs
		chunks := len(recs)/16 + 1
		failAt := rapid.IntRange(0, chunks-1).Draw(t, "failAtIndex")
		cc := byte(rapid.SampledFrom([]int{0xC9, 0xFF, 0xCE, 0xD5, 0xC1, 0xCC, 0x80}).Draw(t, "code"))
		w.BMC.Intercept = func(b *simbmc.BMC, rx *simbmc.Rx) {
			if rx.Req != nil && rx.Msg != nil && rx.Msg.NetFn == ref.NetFnApp && rx.Msg.Cmd == ref.CmdGetCipherSuites && int(rx.Req.Fields["index"]) == failAt {
				rx.Replies = []memnet.Out{b.Wrap(nil, b.ResponseFor(rx.Msg, cc, nil).Bytes())}
			}
		}
		opts := c.Opts()
		opts.CipherSuites = nil
		for _, i := range pref {
			opts.CipherSuites = append(opts.CipherSuites, hx.LibSuite(universe[i]))
		}
		eff := pref
		if len(eff) == 0 {
			eff = []int{0, 1}
		}
		want := -1
		for _, i := range eff {
			if advertised&(1<<uint(i)) != 0 {
				want = i
				break
			}
		}
		ctx, cancel := w.Ctx(40)
		sess, err := w.T.NewV2Session(ctx, opts)
		cancel()
		ev.Eval()
		where := fmt.Sprintf("preferences %v advertised %06b (%d bytes of record data), list index %d answered with %#x", pref, advertised, len(recs), failAt, cc)
		for _, rx := range w.BMC.Log {
			if rx.OpenReq == nil {
				continue
			}
			got := ref.Suite{Auth: rx.OpenReq.Algs[0].Alg, Integ: rx.OpenReq.Algs[1].Alg, Conf: rx.OpenReq.Algs[2].Alg}
			if want < 0 || got != universe[want] {
				first := "none of the preferences"
				if want >= 0 {
					first = universe[want].String()
				}
				t.Fatalf("%s: %v was proposed; the first preference the BMC advertises is %s", where, got, first)
			}
		}
		if sess != nil && err == nil && (want < 0 || uint8(sess.AuthenticationAlgorithm) != universe[want].Auth || uint8(sess.IntegrityAlgorithm) != universe[want].Integ) {
			t.Fatalf("%s: session established with %v/%v", where, sess.AuthenticationAlgorithm, sess.IntegrityAlgorithm)
		}
		ev.Label("discovery-fault")
		if failAt > 0 {
			ev.Label("discovery-fault:later-index")
			ev.NonTrivial(fmt.Sprintf("dfault|%v|%d|%d|%d|%d", pref, advertised, len(recs), failAt, cc))
		}
	})
}

func TestCoverage(t *testing.T) {
	ev.RequireLabels(t, 1, "selection-complete", "selection-with-suite-zero", "discovery-fault:later-index", "advertisement:several-algorithms-per-record", "advertisement:same-id-for-all-records", "confirmation-complete", "selection:first-preference-not-advertised", "sequence-of-opens", "confirmation:answered-differs", "confirmation:answered-equals", "confirmation:odd-payload-length-byte")
}
