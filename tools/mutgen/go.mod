module verif/tools/mutgen

go 1.23
