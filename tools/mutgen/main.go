// mutgen enumerates and applies simple syntactic mutations of one Go file.
//
//	mutgen list <file.go>            JSON list of mutation points
//	mutgen apply <file.go> <id>      mutated source on stdout
//
// Operators: comparison / arithmetic / logical / bitwise operator swaps,
// integer literal +1, negated if-conditions, deleted statements (assignments
// other than :=, ++/--, call statements, defers) and deleted break statements
// in for loops are NOT generated (they tend to hang rather than fail).
// Functions that only describe (String, Name, LayerType, CanDecode,
// NextLayerType, Describe, Collect) are skipped.
package main

import (
	"encoding/json"
	"fmt"
	"go/ast"
	"go/parser"
	"go/token"
	"os"
	"strconv"
)

type mut struct {
	ID    int    `json:"id"`
	Line  int    `json:"line"`
	Func  string `json:"func"`
	Kind  string `json:"kind"`
	Desc  string `json:"desc"`
	start int
	end   int
	repl  string
}

var swaps = map[token.Token][]token.Token{
	token.EQL: {token.NEQ}, token.NEQ: {token.EQL},
	token.LSS: {token.LEQ, token.GTR}, token.LEQ: {token.LSS}, token.GTR: {token.GEQ, token.LSS}, token.GEQ: {token.GTR},
	token.ADD: {token.SUB}, token.SUB: {token.ADD},
	token.LAND: {token.LOR}, token.LOR: {token.LAND},
	token.AND: {token.OR}, token.OR: {token.AND}, token.XOR: {token.AND},
	token.SHL: {token.SHR}, token.SHR: {token.SHL},
	token.MUL: {token.QUO}, token.QUO: {token.MUL}, token.REM: {token.QUO},
}

var assignSwaps = map[token.Token]token.Token{
	token.OR_ASSIGN: token.AND_ASSIGN, token.AND_ASSIGN: token.OR_ASSIGN, token.ADD_ASSIGN: token.SUB_ASSIGN, token.SUB_ASSIGN: token.ADD_ASSIGN,
	token.SHL_ASSIGN: token.SHR_ASSIGN, token.SHR_ASSIGN: token.SHL_ASSIGN, token.XOR_ASSIGN: token.OR_ASSIGN,
}

var skipFuncs = map[string]bool{"String": true, "Name": true, "LayerType": true, "CanDecode": true, "NextLayerType": true, "Describe": true, "Collect": true, "Description": true}

func main() {
	if len(os.Args) < 3 {
		fmt.Fprintln(os.Stderr, "usage: mutgen list|apply <file> [id]")
		os.Exit(2)
	}
	path := os.Args[2]
	src, err := os.ReadFile(path)
	if err != nil {
		panic(err)
	}
	fset := token.NewFileSet()
	f, err := parser.ParseFile(fset, path, src, parser.ParseComments)
	if err != nil {
		panic(err)
	}
	var muts []mut
	off := func(p token.Pos) int { return fset.Position(p).Offset }
	add := func(fn string, pos token.Pos, kind, desc string, s, e int, repl string) {
		muts = append(muts, mut{ID: len(muts), Line: fset.Position(pos).Line, Func: fn, Kind: kind, Desc: desc, start: s, end: e, repl: repl})
	}
	for _, d := range f.Decls {
		fd, ok := d.(*ast.FuncDecl)
		if !ok || fd.Body == nil || skipFuncs[fd.Name.Name] || fd.Name.Name == "init" {
			continue
		}
		fn := fd.Name.Name
		ast.Inspect(fd.Body, func(n ast.Node) bool {
			switch x := n.(type) {
			case *ast.BinaryExpr:
				for _, to := range swaps[x.Op] {
					// string concatenation: skip + on string literals
					if x.Op == token.ADD {
						if bl, ok := x.X.(*ast.BasicLit); ok && bl.Kind == token.STRING {
							continue
						}
						if bl, ok := x.Y.(*ast.BasicLit); ok && bl.Kind == token.STRING {
							continue
						}
					}
					s := off(x.OpPos)
					add(fn, x.OpPos, "binop", fmt.Sprintf("%s -> %s", x.Op, to), s, s+len(x.Op.String()), to.String())
				}
			case *ast.BasicLit:
				if x.Kind == token.INT {
					v, err := strconv.ParseInt(x.Value, 0, 64)
					if err == nil {
						add(fn, x.Pos(), "intlit", fmt.Sprintf("%s -> %d", x.Value, v+1), off(x.Pos()), off(x.End()), strconv.FormatInt(v+1, 10))
						if v > 1 {
							add(fn, x.Pos(), "intlit", fmt.Sprintf("%s -> %d", x.Value, v-1), off(x.Pos()), off(x.End()), strconv.FormatInt(v-1, 10))
						}
					}
				}
			case *ast.IfStmt:
				s, e := off(x.Cond.Pos()), off(x.Cond.End())
				add(fn, x.Cond.Pos(), "negate-if", "if !(cond)", s, e, "!("+string(src[s:e])+")")
			case *ast.AssignStmt:
				if to, ok := assignSwaps[x.Tok]; ok {
					s := off(x.TokPos)
					add(fn, x.TokPos, "assignop", fmt.Sprintf("%s -> %s", x.Tok, to), s, s+len(x.Tok.String()), to.String())
				}
				if x.Tok != token.DEFINE {
					s, e := off(x.Pos()), off(x.End())
					add(fn, x.Pos(), "del-stmt", "delete: "+oneLine(string(src[s:e])), s, e, "_ = 0")
				}
			case *ast.IncDecStmt:
				s, e := off(x.Pos()), off(x.End())
				add(fn, x.Pos(), "del-stmt", "delete: "+oneLine(string(src[s:e])), s, e, "_ = 0")
			case *ast.ExprStmt:
				if _, ok := x.X.(*ast.CallExpr); ok {
					s, e := off(x.Pos()), off(x.End())
					add(fn, x.Pos(), "del-stmt", "delete: "+oneLine(string(src[s:e])), s, e, "_ = 0")
				}
			case *ast.DeferStmt:
				s, e := off(x.Pos()), off(x.End())
				add(fn, x.Pos(), "del-stmt", "delete: "+oneLine(string(src[s:e])), s, e, "_ = 0")
			case *ast.ReturnStmt:
				// "return nil" for an error-only result in the middle of a function is
				// left alone; a returned boolean literal is flipped
				for _, r := range x.Results {
					if id, ok := r.(*ast.Ident); ok && (id.Name == "true" || id.Name == "false") {
						to := map[string]string{"true": "false", "false": "true"}[id.Name]
						add(fn, id.Pos(), "boollit", id.Name+" -> "+to, off(id.Pos()), off(id.End()), to)
					}
				}
			}
			return true
		})
	}
	switch os.Args[1] {
	case "list":
		json.NewEncoder(os.Stdout).Encode(muts)
	case "apply":
		id, _ := strconv.Atoi(os.Args[3])
		m := muts[id]
		os.Stdout.Write(src[:m.start])
		os.Stdout.WriteString(m.repl)
		os.Stdout.Write(src[m.end:])
	}
}

func oneLine(s string) string {
	out := []rune{}
	for _, r := range s {
		if r == '\n' || r == '\t' {
			r = ' '
		}
		out = append(out, r)
		if len(out) > 70 {
			break
		}
	}
	return string(out)
}
